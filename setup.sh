#!/bin/sh
# MANIFEST.setup_cmd: build the harness offline from files on disk only.
set -e
cd "$(dirname "$0")/harness"
export CARGO_NET_OFFLINE=true
cargo build --profile checked --offline 2>&1 | grep -v '^warning' | tail -3
test -x target/checked/pfv
echo "setup ok"

#![no_main]
//! One raw DEFLATE candidate per input. Oracles (any failure panics = libFuzzer crash):
//!  C05 no panic in decompress_deflate_stream (either verify setting);
//!  C02 Ok => reconstruction equals the consumed prefix; both verify settings agree;
//!  C03 if zlib's inflate accepts too: same plaintext, same consumed length;
//!  C07 parse_and_rewrite is the identity on the consumed prefix.
use libfuzzer_sys::fuzz_target;
use std::mem::MaybeUninit;

fn zlib_inflate_raw(data: &[u8], max_out: usize) -> Option<(Vec<u8>, usize)> {
    use libz_sys::*;
    unsafe {
        let mut zs = MaybeUninit::<z_stream>::zeroed();
        let z = zs.as_mut_ptr();
        if inflateInit2_(z, -15, zlibVersion(), std::mem::size_of::<z_stream>() as i32) != Z_OK {
            return None;
        }
        let mut out: Vec<u8> = Vec::new();
        let mut buf = vec![0u8; 1 << 16];
        (*z).next_in = data.as_ptr() as *mut _;
        (*z).avail_in = data.len() as u32;
        let res;
        loop {
            (*z).next_out = buf.as_mut_ptr();
            (*z).avail_out = buf.len() as u32;
            let rc = inflate(z, Z_NO_FLUSH);
            let produced = buf.len() - (*z).avail_out as usize;
            out.extend_from_slice(&buf[..produced]);
            if rc == Z_STREAM_END {
                res = Some((*z).total_in as usize);
                break;
            }
            if rc != Z_OK || out.len() > max_out || (produced == 0 && (*z).avail_in == 0) {
                res = None;
                break;
            }
        }
        inflateEnd(z);
        res.map(|n| (out, n))
    }
}

fuzz_target!(|data: &[u8]| {
    if data.len() > 1 << 16 {
        return;
    }
    let f = preflate_rs::decompress_deflate_stream(data, false, 0);
    let t = preflate_rs::decompress_deflate_stream(data, true, 0);
    match (&f, &t) {
        (Ok(a), Ok(b)) => {
            assert!(
                a.plain_text == b.plain_text
                    && a.prediction_corrections == b.prediction_corrections
                    && a.compressed_size == b.compressed_size,
                "C02: verify settings disagree (both Ok)"
            );
        }
        (Ok(_), Err(e)) => panic!("C02: verify=false Ok but verify=true Err({:?})", e.exit_code()),
        (Err(e), Ok(_)) => panic!("C02: verify=true Ok but verify=false Err({:?})", e.exit_code()),
        _ => {}
    }
    if let Ok(a) = &f {
        assert!(a.compressed_size <= data.len(), "C02: compressed_size out of range");
        let rec = preflate_rs::recompress_deflate_stream(&a.plain_text, &a.prediction_corrections);
        match rec {
            Ok(bytes) => assert!(bytes[..] == data[..a.compressed_size], "C02: reconstruction differs"),
            Err(e) => panic!("C02: accepted but reconstruction Err({:?})", e.exit_code()),
        }
        if let Some((zp, used)) = zlib_inflate_raw(data, 64 << 20) {
            assert!(zp == a.plain_text, "C03: plaintext differs from zlib");
            assert!(used == a.compressed_size, "C03: consumed length differs from zlib");
        }
    }
    if let Ok((w, consumed, _plain)) = preflate_rs::verif::parse_and_rewrite(data) {
        assert!(consumed <= data.len() && w[..] == data[..consumed], "C07: rewrite differs");
    }
});

#![no_main]
//! One file per input. Oracle C01: expand returns Ok and recreate writes back exactly the file.
use libfuzzer_sys::fuzz_target;
use std::io::Cursor;

fuzz_target!(|data: &[u8]| {
    if data.len() > 1 << 17 {
        return;
    }
    let e = match preflate_rs::expand_zlib_chunks(data, 0) {
        Ok(e) => e,
        Err(err) => panic!("C01: expand Err({:?})", err.exit_code()),
    };
    let mut out = Vec::new();
    match preflate_rs::recreated_zlib_chunks(&mut Cursor::new(&e), &mut out) {
        Ok(()) => assert!(out[..] == data[..], "C01: recreated file differs"),
        Err(err) => panic!("C01: recreate Err({:?})", err.exit_code()),
    }
});

//! C14 under Miri: sequential baseline, then two threads making the same calls concurrently; every
//! result must equal the baseline. Run with -Zmiri-many-seeds for distinct schedules. Miri itself
//! reports data races, undefined behaviour and reads of uninitialised memory.
mod inputs;
use preflate_rs::{decompress_deflate_stream, expand_zlib_chunks, recompress_deflate_stream, recreated_zlib_chunks};
use std::io::Cursor;

fn work(stream: &[u8], file: &[u8]) -> Vec<u8> {
    let mut out = Vec::new();
    match decompress_deflate_stream(stream, false, 0) {
        Ok(r) => {
            out.extend_from_slice(&r.plain_text);
            out.extend_from_slice(&r.prediction_corrections);
            out.extend_from_slice(format!("{:?}", r.parameters).as_bytes());
            match recompress_deflate_stream(&r.plain_text, &r.prediction_corrections) {
                Ok(b) => out.extend_from_slice(&b),
                Err(e) => out.extend_from_slice(format!("{:?}", e.exit_code()).as_bytes()),
            }
        }
        Err(e) => out.extend_from_slice(format!("{:?}", e.exit_code()).as_bytes()),
    }
    match expand_zlib_chunks(file, 0) {
        Ok(c) => {
            out.extend_from_slice(&c);
            let mut back = Vec::new();
            match recreated_zlib_chunks(&mut Cursor::new(&c), &mut back) {
                Ok(()) => out.extend_from_slice(&back),
                Err(e) => out.extend_from_slice(format!("{:?}", e.exit_code()).as_bytes()),
            }
        }
        Err(e) => out.extend_from_slice(format!("{:?}", e.exit_code()).as_bytes()),
    }
    out
}

fn main() {
    let which = std::env::var("PFV_MIRI_INPUT").unwrap_or_else(|_| "huff".into());
    let stream: &'static [u8] = match which.as_str() {
        "dict" => inputs::DICT_STREAM,
        "fast" => inputs::FAST_STREAM,
        _ => inputs::HUFF_STREAM,
    };
    // a small file with a zlib signature in front of the stream, junk around it
    let mut file = vec![1u8, 2, 3, 0x78, 0x9c];
    file.extend_from_slice(stream);
    file.extend_from_slice(&[0, 0, 0, 0, 9, 9]);
    let file = std::sync::Arc::new(file);
    let base = work(stream, &file);
    let again = work(stream, &file);
    let mut ok = base == again;
    let hs: Vec<_> = (0..2)
        .map(|_| {
            let file = file.clone();
            std::thread::spawn(move || work(stream, &file))
        })
        .collect();
    for h in hs {
        ok &= h.join().unwrap() == base;
    }
    println!("{}", if ok { "MIRI-OK" } else { "MIRI-MISMATCH" });
}

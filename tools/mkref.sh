#!/bin/sh
# Freeze a copy of /repo's sources at a commit as a separately named crate (run by hand, never by a check).
#   tools/mkref.sh <commit> <pinned|fixed> <crate-suffix 0|1>
set -e
commit="$1"; name="$2"; n="$3"
dst="$(dirname "$0")/../reference/$name"
rm -rf "$dst"; mkdir -p "$dst"
git -C /repo archive "$commit" src Cargo.toml | tar -x -C "$dst"
# the C symbols of the two extern "C" wrappers would collide with the crate under test
sed -i 's/^#\[no_mangle\]$//' "$dst/src/lib.rs"
rm -f "$dst/src/main.rs"
cat > "$dst/Cargo.toml" <<EOT
[package]
name = "preflate-ref$n"
version = "0.6.0"
edition = "2021"
publish = false
description = "frozen copy of microsoft/preflate-rs at $commit (reference build for C04/C09); do not edit"

[dependencies]
byteorder = "1.4"
cabac = "0.6.0"
default-boxed = "0.2"
zstd = "0.13.0"
crc32fast = "1.3"

[lib]
name = "preflate_ref$n"
crate-type = ["lib"]

[features]
default = ["verif"]
verif = []
EOT
echo "$commit" > "$dst/FROZEN_AT"
echo "froze $commit into $dst"

#!/bin/sh
# Confirm a seeded change in its scratch worktree: applies, builds (also with the hooks feature), the
# existing test suite stays green, the demonstration fails with the change and passes without it.
#   tools/confirm_mutant.sh <worktree> <mutant dir> [demo features]
# Writes <mutant dir>/confirm.log and prints a one-line summary.
wt="$1"; m="$2"; feat="$3"
log="$m/confirm.log"; : > "$log"
cd "$wt" || exit 2
export CARGO_NET_OFFLINE=true
git checkout -q -- . ; rm -f tests/demo.rs
git apply "$m/patch.diff" >>"$log" 2>&1 || { echo "$m: PATCH DOES NOT APPLY"; exit 1; }
b1=ok; cargo build --offline >>"$log" 2>&1 || b1=FAIL
b2=ok; cargo build --offline --features verif >>"$log" 2>&1 || b2=FAIL
t=$(cargo test --workspace --no-fail-fast --offline 2>&1 | tee -a "$log" | grep -E "^test result" | awk '{p+=$4; f+=$6} END {print p" passed "f" failed"}')
demo_with=n/a; demo_without=n/a
if [ -f "$m/demo.rs" ]; then
  cp "$m/demo.rs" tests/demo.rs
  if cargo test --offline $feat --test demo >>"$log" 2>&1; then demo_with=PASS; else demo_with=FAIL; fi
  git checkout -q -- src Cargo.toml
  if cargo test --offline $feat --test demo >>"$log" 2>&1; then demo_without=PASS; else demo_without=FAIL; fi
  rm -f tests/demo.rs
fi
git checkout -q -- .
echo "$m: build=$b1 build+verif=$b2 suite=[$t] demo_with_change=$demo_with demo_without=$demo_without"

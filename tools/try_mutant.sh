#!/bin/sh
# Apply a seeded change to /repo, run the named checks (quick tier unless TIER is set), undo the change.
#   tools/try_mutant.sh <patch.diff> C01 C05 ...      (no ids = all 14)
# Prints one line per check: <id> exit=<code> <first VIOLATION line, shortened>
patch="$1"; shift
ids="$*"; [ -z "$ids" ] && ids="C01 C02 C03 C04 C05 C06 C07 C08 C09 C10 C11 C12 C13 C14"
cd /verif
if ! git -C /repo diff --quiet; then echo "/repo is dirty, refusing"; exit 2; fi
git -C /repo apply "$patch" || { echo "patch does not apply"; exit 2; }
trap 'git -C /repo checkout -- . ; echo "(repo restored)"' EXIT INT TERM
for id in $ids; do
  out=$(./check $id --tier ${TIER:-quick} 2>&1); rc=$?
  v=$(printf '%s\n' "$out" | grep -m1 '^VIOLATION' | cut -c1-260)
  h=$(printf '%s\n' "$out" | grep -m1 '^HARNESS-ERROR' | cut -c1-200)
  echo "$id exit=$rc $v $h"
done

#!/usr/bin/env python3
"""Copy a confirmed seeded change into /verif/seeded/<property>-<name>/ with a meta.json.
   tools/keep_mutant.py <worktree mutant dir> <property> <campaign result file> [<campaign result after strengthening>]"""
import json, os, re, shutil, sys
src, prop, res = sys.argv[1].rstrip("/"), sys.argv[2], sys.argv[3]
res2 = sys.argv[4] if len(sys.argv) > 4 else None
name = os.path.basename(src)
dst = "/verif/seeded/%s-%s" % (prop, name)
os.makedirs(dst, exist_ok=True)
for f in ("patch.diff", "demo.rs", "notes.md"):
    if os.path.exists(os.path.join(src, f)):
        shutil.copy(os.path.join(src, f), os.path.join(dst, f))
confirm = ""
cl = os.path.join(src, "confirm.log")
if os.path.exists(cl):
    for line in open(cl, errors="replace"):
        if line.startswith("CONFIRMED-RUN"):
            confirm = line.strip()[len("CONFIRMED-RUN "):]
def parse(path):
    out = {}
    if path and os.path.exists(path):
        for line in open(path):
            m = re.match(r"(C\d+) exit=(\d+)\s*(.*)", line)
            if m:
                out[m.group(1)] = {"exit": int(m.group(2)), "first_line": m.group(3).strip()[:240]}
    return out
r1, r2 = parse(res), parse(res2)
notes = open(os.path.join(src, "notes.md"), errors="replace").read() if os.path.exists(os.path.join(src, "notes.md")) else ""
meta = {
    "breaks_property": prop,
    "name": name,
    "origin": "written by a fresh sub-agent that was given only the property text and its own git worktree of /repo",
    "needs_to_manifest": notes[:1500],
    "confirmed_in_scratch_worktree": confirm,
    "what_was_run": "tools/confirm_mutant.sh (git apply; cargo build with and without --features verif; cargo test --workspace "
                    "--no-fail-fast --offline; demo as tests/demo.rs with the change -> must fail, without -> must pass); then every "
                    "quick check of /verif against /repo with the patch applied (tools/try_mutant.sh / the campaign copy), patch "
                    "removed afterwards",
    "quick_checks_first_campaign": r1,
    "caught_by_first_campaign": sorted(k for k, v in r1.items() if v["exit"] == 1),
}
if r2:
    meta["quick_checks_after_strengthening"] = r2
    meta["caught_after_strengthening"] = sorted(k for k, v in r2.items() if v["exit"] == 1)
json.dump(meta, open(os.path.join(dst, "meta.json"), "w"), indent=1)
print(dst, "caught by", meta["caught_by_first_campaign"], meta.get("caught_after_strengthening", ""))

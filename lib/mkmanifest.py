#!/usr/bin/env python3
"""Regenerates /verif/MANIFEST.json from lib/props.py (run by hand after changing the set of checks)."""
import json, os, subprocess, sys
sys.path.insert(0, os.path.dirname(os.path.abspath(__file__)))
import props

VERIF = os.path.dirname(os.path.dirname(os.path.abspath(__file__)))
ALL = ["C%02d" % i for i in range(1, 15)]

def repo_commits(prefix):
    out = subprocess.check_output(["git", "-C", "/repo", "log", "--format=%H %s"], text=True)
    return [l.split()[0] for l in out.splitlines() if l.split(" ", 1)[1].startswith(prefix)]

checks = []
for pid in ALL:
    if pid not in props.PROPS:
        continue
    m = props.PROPS[pid]
    checks.append({
        "property_id": pid,
        "quick_cmd": "./check %s --tier quick" % pid,
        "thorough_cmd": "./check %s --tier thorough" % pid,
        "evidence_file": "/verif/evidence/%s.json" % pid,
        "replay_cmd_template": "./check %s --replay {path}" % pid,
        "engine": "pfv",
        "level_claimed": {"category": m["level"], "text": m["level_text"], "design_ref": m["design_ref"]},
        "level_note": m["level_note"],
        "technique": m["technique"],
    })

manifest = {
    "version": 1,
    "setup_cmd": "./setup.sh",
    "hooks": {
        "guard": "cargo feature `verif` of the preflate-rs package (off by default)",
        "enable": "the harness depends on preflate-rs = { path = \"/repo\", features = [\"verif\"] }; every check "
                  "runs `cargo build --profile checked --offline` in /verif/harness, which rebuilds /repo's "
                  "current working tree with the feature on",
        "baseline_off_cmd": "cd /repo && cargo test --workspace --no-fail-fast --offline",
        "source_commits": repo_commits("verif hooks"),
        "add_only": True,
    },
    "engines": [
        {"name": "pfv", "path": "/verif/harness",
         "serves_properties": [c["property_id"] for c in checks],
         "kind_free_text": "Rust worker binary with one runtime monitor per property (oracles over executions of "
                           "the real library, hostile workload generators, panic/CPU/memory watchdogs), driven and "
                           "supervised by the python driver /verif/check"},
    ],
    "checks": checks,
    "notes": "Runtime monitoring only. See DESIGN.md. Fix commits in /repo: "
             + ", ".join(c[:7] for c in repo_commits("fix:")),
    "not_applicable": [{"property_id": p, "reason": props.NOT_YET.get(p, "monitor not built yet")}
                       for p in ALL if p not in props.PROPS],
}
with open(os.path.join(VERIF, "MANIFEST.json"), "w") as f:
    json.dump(manifest, f, indent=1)
print("wrote MANIFEST.json with %d checks, %d not_applicable" % (len(checks), len(manifest["not_applicable"])))

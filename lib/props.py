"""Static per-property metadata used by the driver for the evidence files, plus post-processing of
aggregated counters where a verdict is a statistic over the whole run (C09)."""

NOMINAL_S = {"quick": 90.0, "thorough": 1200.0}
WALL_LIMIT_S = {"quick": 1500, "thorough": 6 * 3600}

COMMON_ASSUME = [
    "verdict build = harness profile 'checked' (release + debug-assertions + overflow-checks), a sound "
    "over-approximation of the crate's dev and release profiles because the crate has no cfg(debug_assertions) code",
    "held on the executions observed; nothing is claimed about inputs the workload did not produce",
]

NOT_YET = {}

PROPS = {
    "C02": dict(
        level_text="Exploration by runtime monitoring: identity oracle (reconstruction must equal the consumed prefix), agreement of both verify settings and suffix independence, observed over thousands of accepted streams per run from five independent stream sources and their mutants. The property is a for-all-inputs claim about a 8.5 kLoC predictor; no finite enumeration exists, so the level is 'held on the executions observed'.",
        design_ref='DESIGN.md §5 C02',
        level_note="Trusts the harness generator only as far as zlib confirms each generated stream; compressor FFI crates are the repository's own dev-dependencies.",
        technique='runtime monitoring: round-trip identity oracle over generated and mutated streams',
        level="exploration",
        rule="inputs: raw DEFLATE streams from zlib/zlib-ng/libdeflate/miniz_oxide over their parameter grids, "
             "from the independent valid-stream generator, hand-built pathological shapes, and byte/bit mutations "
             "of all of these. evaluations = inputs judged. non-trivial = the library accepted the input (Ok for "
             "at least one verify setting), distinct by a 64-bit content hash of D[..compressed_size]",
        assumptions=COMMON_ASSUME + [
            "generator streams are used only if zlib's inflate confirms plaintext and exact length",
        ],
        min_evaluations=100,
    ),
    "C03": dict(
        level_text='Exploration by differential runtime monitoring against an independent decoder (zlib inflate): plaintext and consumed length compared on every doubly-accepted stream, including alphabet sweeps that exercise every length/distance code and extra-bit value.',
        design_ref='DESIGN.md §5 C03',
        level_note="zlib's inflate is the trusted reference; generator ground truth gives a third opinion on generated streams.",
        technique='runtime monitoring: differential oracle (zlib inflate) over generated and mutated streams',
        level="exploration",
        rule="same stream sources as C02 plus alphabet sweeps (every literal, every length code with min/max/"
             "random extra bits, every distance code with min/max/random extra bits, fixed and dynamic codes). "
             "evaluations = inputs judged. non-trivial = accepted by BOTH the library and zlib's inflate (raw, "
             "32 KiB window), distinct by content hash of the consumed prefix",
        assumptions=COMMON_ASSUME + [
            "zlib's inflate (libz-sys, raw mode, windowBits -15, Z_STREAM_END required) is the reference decoder; "
            "its total_in is the exact consumed length, cross-checked against the generator's own length on every "
            "generated stream",
        ],
        min_evaluations=100,
    ),
    "C05": dict(
        level_text='Exploration with one exhaustively enumerated sub-space: every byte string up to length 3 (4 in the thorough tier) under both verify settings, plus large sampled families of hostile inputs, all executed under a panic monitor, a CPU-time watchdog and a process-death supervisor in a build with overflow checks and debug assertions on.',
        design_ref='DESIGN.md §5 C05',
        level_note='Bounded time is judged against a fixed CPU budget; absence of panics is established only for executed inputs.',
        technique='runtime monitoring: panic/abort/CPU-budget monitors over exhaustive tiny inputs and hostile generated inputs (checked build)',
        level="exploration",
        rule="every byte string of length <= 3 (and = 4 in the thorough tier) x both verify settings, enumerated "
             "completely; plus noise behind every plausible block header, all generator/compressor/shape streams "
             "and 6 mutants of each. evaluations = calls of decompress_deflate_stream under the panic/CPU/death "
             "monitors. non-trivial = sampled input that got past the parser stage (Ok, or Err with a non-parser "
             "exit code, or panic), distinct by content hash; the enumerated strings are reported separately as "
             "tiny_strings_enumerated / tiny_strings_past_parser",
        assumptions=COMMON_ASSUME + [
            "'bounded time' is decided against a CPU budget (60 CPU-s per case of <= 7 inputs, re-judged in "
            "isolation with 10x budget); slower-but-terminating behaviour below the budget is not detected",
        ],
        min_evaluations=1000,
        exhaustive_key=("tiny_strings_enumerated",
                        {"quick": 16843009, "thorough": 16843009 + (1 << 32)},
                        {"quick": "all 16,843,009 byte strings of length <= 3, both verify settings",
                         "thorough": "all byte strings of length <= 4 (4,311,810,305), both verify settings"}),
    ),
    "C07": dict(
        level_text='Exploration with the token alphabet enumerated completely: every (length, distance, 258-coding) reference under fixed and dynamic codes and every padding pattern is pushed through the real parser and block writer (hook) and compared bit for bit; generator, compressor and mutated streams are sampled on top.',
        design_ref='DESIGN.md §5 C07',
        level_note='Relies on the add-only hook parse_and_rewrite, cross-checked against the public reconstruction path.',
        technique='runtime monitoring: identity oracle at a hook, exhaustive token alphabet + generated streams',
        level="exploration",
        rule="exhaustive: 512 streams containing every (length 3..258, distance 1..32768) reference once under "
             "the fixed code and once under a random complete dynamic code, length 258 in both codings; all 8x256 "
             "(bit offset, fill) patterns of final-byte padding and of stored-block padding. sampled: directed "
             "dynamic headers, generator streams (+trailing garbage, +1 mutant), compressor streams, pathological "
             "shapes. evaluations = calls of the parse_and_rewrite hook. non-trivial = the parser accepted, "
             "distinct by content hash of the consumed prefix",
        assumptions=COMMON_ASSUME + [
            "hook verif::parse_and_rewrite drives DeflateWriter exactly as recreate_blocks does; cross-checked "
            "against recompress_deflate_stream on a sample of streams the full pipeline accepts",
        ],
        min_evaluations=500,
        exhaustive_key=("alphabet_pairs_fixed", {"quick": 8421376, "thorough": 8421376},
                        {"quick": "all (length, distance, 258-coding) references under fixed and dynamic codes; "
                                  "all padding patterns",
                         "thorough": "all (length, distance, 258-coding) references under fixed and dynamic codes; "
                                     "all padding patterns"}),
    ),
}

PROPS.update({
    "C01": dict(
        level_text="Exploration with one exhaustively enumerated sub-space: every file of length <= 3 (4 in the thorough tier) goes through expand/recreate (and a sixty-fourth of them through the zstd pair); assembled container files with embedded streams from five sources, two junk flavours, the named edge-case shapes, mutations and the repository's own samples are judged by the identity oracle.",
        design_ref="DESIGN.md §5 C01",
        level_note="Files >= 4 GiB (the edge of the stated domain) are not generated. The independent container parser and scan_spans are diagnosis only.",
        technique="runtime monitoring: round-trip identity oracle over exhaustive tiny files and assembled/mutated container files",
        level="exploration",
        rule="every byte string of length <= 3 (= 4 in the thorough tier) completely; edge-case assemblers; files assembled "
             "from 0-4 streams (four compressors + independent generator) behind zlib/gzip/zip/PNG wrappers between clean or "
             "hostile junk, each followed by 0-3 cumulative mutations; repo samples and mutants. evaluations = files judged "
             "(expand + recreate, most also through the zstd pair). non-trivial = sampled file containing at least one signature "
             "position of the scanner or expanding to at least one non-literal chunk, distinct by content hash; enumerated tiny "
             "files are reported separately (tiny_files_enumerated)",
        assumptions=COMMON_ASSUME + ["zstd (the crate's own dependency) is trusted to be lossless"],
        min_evaluations=1000,
        exhaustive_key=("tiny_files_enumerated",
                        {"quick": 16843009, "thorough": 16843009 + (1 << 32)},
                        {"quick": "all 16,843,009 files of length <= 3", "thorough": "all files of length <= 4"}),
    ),
    "C06": dict(
        level_text="Exploration by runtime monitoring: for streams that satisfy the premise (accepted alone with verify=true, plaintext > 1024 bytes), every wrapper kind with randomised header variants, junk flavours and prefix/suffix lengths is expanded and the plaintext searched for in the expansion.",
        design_ref="DESIGN.md §5 C06",
        level_note="The premise about surrounding bytes is decided with the scan_spans hook: only a stream that starts in the bytes in front of the wrapper and overlaps S excuses a miss.",
        technique="runtime monitoring: substring oracle on the expansion of wrapped streams, premise-checked",
        level="exploration",
        rule="one premise-satisfying stream per case x 4 wrapper kinds (zlib 4 header bytes; gzip 16 optional-field subsets "
             "with random field contents; ZIP name/extra lengths 0..300, data descriptor, central directory; PNG 1-8 IDAT "
             "chunks with/without envelope) x clean/hostile junk x prefix/suffix lengths 0..4096. evaluations = files expanded. "
             "non-trivial = premise holds and the plaintext does not already occur verbatim in the file, distinct by content hash",
        assumptions=COMMON_ASSUME,
        min_evaluations=200,
    ),
    "C11": dict(
        level_text="Exploration by runtime monitoring: for each generated file the exact boundary |expand(F)| is computed and decompress_zstd is called with capacities on both sides of it and with inputs that are not complete zstd frames.",
        design_ref="DESIGN.md §5 C11",
        level_note="Absurd capacities are not generated (they only test the allocator). Bit-flipped valid frames are outside the statement.",
        technique="runtime monitoring: boundary oracle on capacity sweeps and non-frame inputs",
        level="exploration",
        rule="files from the C01 assembler (incl. edge cases, noise, mutants) x capacities {0, 1, size/2, size-1, size, size+1, "
             "size+k, 2*size, occasionally 128 MiB} where size = |expand(F)|, plus non-frames {empty, the file itself, noise, "
             "three truncations of the frame, frame without last byte, frame without magic}. evaluations = decompress_zstd "
             "calls judged. non-trivial = file whose compress_zstd succeeded and whose whole sweep ran, distinct by content hash",
        assumptions=COMMON_ASSUME + ["|expand(F)| is deterministic (C14)"],
        min_evaluations=500,
    ),
    "C13": dict(
        level_text="Fault enumeration by runtime monitoring: instrumented Read/Write objects fragment I/O in many patterns and inject one error at each structural offset of each container (every offset of containers up to 16 KiB in the thorough tier), for five error kinds plus Interrupted and zero-length writes.",
        design_ref="DESIGN.md §5 C13",
        level_note="ErrorKind::Interrupted may legitimately be retried (read_exact/write_all) or surfaced (the one-byte end probe): only panics and wrong bytes are violations for it.",
        technique="runtime monitoring with fault injection: instrumented Read/Write, prefix oracle on the sink",
        level="fault_enumeration",
        rule="containers = expand(F) for assembled files (all three chunk kinds, literal chunks > 64 KiB, multi-chunk PNG, edge "
             "cases). per container: 36 read x write fragmentation patterns without fault; a read fault at every structural "
             "offset (tag, varints, first/last payload and correction byte, EOF probe) + random offsets, a write fault at chunk "
             "boundaries + random offsets; thorough: every offset for containers/files <= 16 KiB. evaluations = reconstruction "
             "attempts. non-trivial = container whose plain round trip holds, distinct by content hash",
        assumptions=COMMON_ASSUME,
        min_evaluations=500,
    ),
})

PROPS.update({
    "C08": dict(
        level_text="Exploration over configurations x inputs by runtime monitoring: for each parseable stream the estimator's own vector and 12 (quick) / 50 (thorough) vectors re-drawn group-wise from the estimator's image are pushed through the real encode/decode path (hook); the oracle is byte equality with the original plus equality of the parameter vector as re-read.",
        design_ref="DESIGN.md §5 C08",
        level_note="Vectors outside the estimator's image are not generated (the property ranges over what the estimator can emit). The image description is itself checked at run time: every vector the estimator returns must be a fixed point of the described couplings.",
        technique="runtime monitoring at a hook: identity oracle under perturbed parameter vectors (estimator image x streams)",
        level="exploration",
        rule="streams (<= 64 KiB plaintext) from the generator, the four compressors and the pathological shapes; per stream the "
             "estimator's vector plus vectors in which one to four groups (hash family + min_len, add policy, chain depth, window, "
             "block size, flags, strategy, huff strategy, no-dictionary vector, the named 4-byte-hash/first-and-last combination) "
             "are re-drawn from the image. evaluations = (stream, vector) pairs executed. non-trivial = stream for which a "
             "vector could be estimated or that parses, distinct by content hash",
        assumptions=COMMON_ASSUME + ["hook verif::roundtrip_with_params performs exactly the calls decompress_deflate_stream(verify=true) performs, with the vector replaced; cross-checked against the public path with the estimator's own vector"],
        min_evaluations=500,
    ),
    "C10": dict(
        level_text="Exploration with exhaustively enumerated single-operation sequences (every correction value below 2^17 in each of the 10 contexts, every (value, width) pair for widths 1..16, every flag), plus random sequences of up to 6000 operations in six mixes and the operation sequences real analyses produce, all through the real encoder/decoder pair (hook).",
        design_ref="DESIGN.md §5 C10",
        level_note="Values >= 2^31 are outside the stated range and not generated.",
        technique="runtime monitoring at a hook: encode/decode identity oracle over exhaustive single operations and random/real operation sequences",
        level="exploration",
        rule="single operations enumerated completely (10 x (2^17 + 5) corrections, sum over widths 1..16 of 2^w plain values, all "
             "flags and flag/correction pairs); random sequences (40 per case) in six styles: long default runs, one context "
             "hammered, bypass/arithmetic interleaving, flags only, everything mixed; operation sequences recorded from real "
             "analyses. evaluations = sequences round-tripped. non-trivial = multi-operation sequence, distinct by content hash",
        assumptions=COMMON_ASSUME + ["hook verif::cabac_roundtrip uses PredictionEncoderCabac<VP8Writer>/PredictionDecoderCabac<VP8Reader> as the library does"],
        min_evaluations=1000,
        exhaustive_key=("single_corrections_enumerated", {"quick": 1310770, "thorough": 1310770},
                        {"quick": "all single-operation sequences: corrections v < 2^17 x 10 contexts, values for widths 1..16, flags",
                         "thorough": "all single-operation sequences: corrections v < 2^17 x 10 contexts, values for widths 1..16, flags"}),
    ),
})


def post_process(pid, counters, extras, run, replays):
    out = {}
    if pid == "C07":
        if counters.get("hook_crosscheck_failed", 0) > 0:
            out["harness_error"] = ("hook cross-check failed %d time(s): parse_and_rewrite disagrees with the "
                                    "public reconstruction path" % counters["hook_crosscheck_failed"])
    if pid == "C08":
        if counters.get("hook_crosscheck_failed", 0) > 0:
            out["harness_error"] = ("hook cross-check failed %d time(s): roundtrip_with_params with the estimator's own "
                                    "vector disagrees with the public analysis" % counters["hook_crosscheck_failed"])
    if pid == "C05":
        out["distinct_add"] = 0
    return out

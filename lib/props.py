"""Static per-property metadata used by the driver for the evidence files, plus post-processing of
aggregated counters where a verdict is a statistic over the whole run (C09)."""

NOMINAL_S = {"quick": 90.0, "thorough": 1200.0}
WALL_LIMIT_S = {"quick": 1500, "thorough": 6 * 3600}

COMMON_ASSUME = [
    "verdict build = harness profile 'checked' (release + debug-assertions + overflow-checks), a sound "
    "over-approximation of the crate's dev and release profiles because the crate has no cfg(debug_assertions) code",
    "held on the executions observed; nothing is claimed about inputs the workload did not produce",
]

NOT_YET = {}

PROPS = {
    "C02": dict(
        level_text="Exploration by runtime monitoring: identity oracle (reconstruction must equal the consumed prefix), agreement of both verify settings and suffix independence, observed over thousands of accepted streams per run from five independent stream sources and their mutants. The property is a for-all-inputs claim about a 8.5 kLoC predictor; no finite enumeration exists, so the level is 'held on the executions observed'.",
        design_ref='DESIGN.md §5 C02',
        level_note="Trusts the harness generator only as far as zlib confirms each generated stream; compressor FFI crates are the repository's own dev-dependencies.",
        technique='runtime monitoring: round-trip identity oracle over generated and mutated streams; coverage-guided (libFuzzer+ASan) inputs in the thorough tier',
        level="exploration",
        rule="inputs: raw DEFLATE streams from zlib/zlib-ng/libdeflate/miniz_oxide over their parameter grids, "
             "from the independent valid-stream generator, hand-built pathological shapes, and byte/bit mutations "
             "of all of these; three zlib streams with about 8, 35 and 137 MiB of plaintext (beyond the crate's only size "
             "constant, 128 MiB). evaluations = inputs judged. non-trivial = the library accepted the input (Ok for "
             "at least one verify setting), distinct by a 64-bit content hash of D[..compressed_size]",
        assumptions=COMMON_ASSUME + [
            "generator streams are used only if zlib's inflate confirms plaintext and exact length",
        ],
        min_evaluations=100,
    ),
    "C03": dict(
        level_text='Exploration by differential runtime monitoring against an independent decoder (zlib inflate): plaintext and consumed length compared on every doubly-accepted stream, including alphabet sweeps that exercise every length/distance code and extra-bit value.',
        design_ref='DESIGN.md §5 C03',
        level_note="zlib's inflate is the trusted reference; generator ground truth gives a third opinion on generated streams.",
        technique='runtime monitoring: differential oracle (zlib inflate) over generated, directed and mutated streams; coverage-guided (libFuzzer+ASan) inputs in the thorough tier',
        level="exploration",
        rule="same stream sources as C02 plus alphabet sweeps (every literal, every length code with min/max/"
             "random extra bits, every distance code with min/max/random extra bits, fixed and dynamic codes), and three "
             "multi-block zlib streams with about 8, 35 and 137 MiB of plaintext. "
             "evaluations = inputs judged. non-trivial = accepted by BOTH the library and zlib's inflate (raw, "
             "32 KiB window), distinct by content hash of the consumed prefix",
        assumptions=COMMON_ASSUME + [
            "zlib's inflate (libz-sys, raw mode, windowBits -15, Z_STREAM_END required) is the reference decoder; "
            "its total_in is the exact consumed length, cross-checked against the generator's own length on every "
            "generated stream",
        ],
        min_evaluations=100,
    ),
    "C05": dict(
        level_text='Exploration with one exhaustively enumerated sub-space: every byte string up to length 3 (4 in the thorough tier) under both verify settings, plus large sampled families of hostile inputs, all executed under a panic monitor, a CPU-time watchdog and a process-death supervisor in a build with overflow checks and debug assertions on.',
        design_ref='DESIGN.md §5 C05',
        level_note='Bounded time is judged against a fixed CPU budget; absence of panics is established only for executed inputs.',
        technique='runtime monitoring: panic/abort/CPU-budget monitors over exhaustive tiny inputs and hostile generated inputs (checked build); coverage-guided (libFuzzer+ASan) inputs in the thorough tier',
        level="exploration",
        rule="every byte string of length <= 3 (and = 4 in the thorough tier) x both verify settings, enumerated "
             "completely; plus noise behind every plausible block header, all generator/compressor/shape streams, three "
             "streams with 8 to 137 MiB of plaintext "
             "and 6 mutants of each. evaluations = calls of decompress_deflate_stream under the panic/CPU/death "
             "monitors. non-trivial = sampled input that got past the parser stage (Ok, or Err with a non-parser "
             "exit code, or panic), distinct by content hash; the enumerated strings are reported separately as "
             "tiny_strings_enumerated / tiny_strings_past_parser",
        assumptions=COMMON_ASSUME + [
            "'bounded time' is decided against a CPU budget (60 CPU-s per case of <= 7 inputs, re-judged in "
            "isolation with 10x budget); slower-but-terminating behaviour below the budget is not detected",
        ],
        min_evaluations=1000,
        exhaustive_key=("tiny_strings_enumerated",
                        {"quick": 16843009, "thorough": 16843009 + (1 << 32)},
                        {"quick": "all 16,843,009 byte strings of length <= 3, both verify settings",
                         "thorough": "all byte strings of length <= 4 (4,311,810,305), both verify settings"}),
    ),
    "C07": dict(
        level_text='Exploration with the token alphabet enumerated completely: every (length, distance, 258-coding) reference under fixed and dynamic codes and every padding pattern is pushed through the real parser and block writer (hook) and compared bit for bit; generator, compressor and mutated streams are sampled on top.',
        design_ref='DESIGN.md §5 C07',
        level_note='Relies on the add-only hook parse_and_rewrite, cross-checked against the public reconstruction path.',
        technique='runtime monitoring: identity oracle at a hook, exhaustive token alphabet and header fields + generated streams; coverage-guided (libFuzzer+ASan) inputs in the thorough tier',
        level="exploration",
        rule="exhaustive: 512 streams containing every (length 3..258, distance 1..32768) reference once under "
             "the fixed code and once under a random complete dynamic code, length 258 in both codings; all 8x256 "
             "(bit offset, fill) patterns of final-byte padding and of stored-block padding. sampled: directed "
             "dynamic headers, generator streams (+trailing garbage, +1 mutant), compressor streams, pathological "
             "shapes (incl. 256/257 symbols of one code length, stored LEN/NLEN fields across multiples of 64 KiB). A known-valid stream "
             "that the current parser rejects but the frozen reference parser rewrites identically is a violation. "
             "evaluations = calls of the parse_and_rewrite hook. non-trivial = the parser accepted, "
             "distinct by content hash of the consumed prefix",
        assumptions=COMMON_ASSUME + [
            "hook verif::parse_and_rewrite drives DeflateWriter exactly as recreate_blocks does; cross-checked "
            "against recompress_deflate_stream on a sample of streams the full pipeline accepts",
        ],
        min_evaluations=500,
        exhaustive_key=("alphabet_pairs_fixed", {"quick": 8421376, "thorough": 8421376},
                        {"quick": "all (length, distance, 258-coding) references under fixed and dynamic codes; "
                                  "all padding patterns",
                         "thorough": "all (length, distance, 258-coding) references under fixed and dynamic codes; "
                                     "all padding patterns"}),
    ),
}

PROPS.update({
    "C01": dict(
        level_text="Exploration with one exhaustively enumerated sub-space: every file of length <= 3 (4 in the thorough tier) goes through expand/recreate (and a sixty-fourth of them through the zstd pair); assembled container files with embedded streams from five sources, two junk flavours, the named edge-case shapes, mutations and the repository's own samples are judged by the identity oracle.",
        design_ref="DESIGN.md §5 C01",
        level_note="Files >= 4 GiB (the edge of the stated domain) are not generated. The independent container parser and scan_spans are diagnosis only.",
        technique="runtime monitoring: round-trip identity oracle over exhaustive tiny files and assembled/mutated container files; coverage-guided (libFuzzer+ASan) inputs in the thorough tier",
        level="exploration",
        rule="every byte string of length <= 3 (= 4 in the thorough tier) completely; edge-case assemblers; files assembled "
             "from 0-4 streams (four compressors + independent generator) behind zlib/gzip/zip/PNG wrappers between clean or "
             "hostile junk (an eighth of them with the first wrapper, a twelfth with a literal run, on or next to a multiple of 64 KiB; a "
             "twentieth of the streams are pathological shapes), each followed by 0-3 cumulative mutations; two files with a zlib "
             "member of about 35 and 137 MiB of plaintext; repo samples and mutants. evaluations = files judged "
             "(expand + recreate, most also through the zstd pair). non-trivial = sampled file containing at least one signature "
             "position of the scanner or expanding to at least one non-literal chunk, distinct by content hash; enumerated tiny "
             "files are reported separately (tiny_files_enumerated)",
        assumptions=COMMON_ASSUME + ["zstd (the crate's own dependency) is trusted to be lossless"],
        min_evaluations=1000,
        exhaustive_key=("tiny_files_enumerated",
                        {"quick": 16843009, "thorough": 16843009 + (1 << 32)},
                        {"quick": "all 16,843,009 files of length <= 3", "thorough": "all files of length <= 4"}),
    ),
    "C06": dict(
        level_text="Exploration by runtime monitoring: for streams that satisfy the premise (accepted alone with verify=true, plaintext > 1024 bytes), every wrapper kind with randomised header variants, junk flavours and prefix/suffix lengths is expanded and the plaintext searched for in the expansion.",
        design_ref="DESIGN.md §5 C06",
        level_note="The premise about surrounding bytes is decided with the scan_spans hook: only a stream that starts in the bytes in front of the wrapper and overlaps S excuses a miss.",
        technique="runtime monitoring: substring oracle on the expansion of wrapped streams, premise-checked",
        level="exploration",
        rule="one premise-satisfying stream per case x 4 wrapper kinds (zlib 4 header bytes; gzip 16 optional-field subsets "
             "with random field contents; ZIP name/extra lengths 0..300, data descriptor, central directory; PNG 1-8 IDAT "
             "chunks with/without envelope) x clean/hostile junk x prefix/suffix lengths 0..4096, a sixth of the files with the "
             "wrapper's two signature bytes on or next to a multiple of 64 KiB; gzip names/comments up to 70 KB; a zlib stream that "
             "fills ONE IDAT chunk of at most 1024 bytes is judged under the zlib clause. evaluations = files expanded. "
             "non-trivial = premise holds and the plaintext does not already occur verbatim in the file, distinct by content hash",
        assumptions=COMMON_ASSUME,
        min_evaluations=200,
    ),
    "C11": dict(
        level_text="Exploration by runtime monitoring: for each generated file the exact boundary |expand(F)| is computed and decompress_zstd is called with capacities on both sides of it and with inputs that are not complete zstd frames.",
        design_ref="DESIGN.md §5 C11",
        level_note="Absurd capacities are not generated (they only test the allocator). Bit-flipped valid frames are outside the statement.",
        technique="runtime monitoring: boundary oracle on capacity sweeps and non-frame inputs",
        level="exploration",
        rule="files from the C01 assembler (incl. edge cases, noise, mutants) x capacities {0, 1, size/2, size-1, size, size+1, "
             "size+k, 2*size, occasionally 128 MiB} where size = |expand(F)|, plus non-frames {empty, the file itself, noise, "
             "three truncations of the frame, frame without last byte, frame without magic}; one file in 4000 is 3 to 40 MiB of "
             "noise (sizes walked systematically); two files with a zlib member of about 137 and 35 MiB of plaintext. evaluations = decompress_zstd "
             "calls judged. non-trivial = file whose compress_zstd succeeded and whose whole sweep ran, distinct by content hash",
        assumptions=COMMON_ASSUME + ["|expand(F)| is deterministic (C14)"],
        min_evaluations=500,
    ),
    "C13": dict(
        level_text="Fault enumeration by runtime monitoring: instrumented Read/Write objects fragment I/O in many patterns and inject one error at each structural offset of each container (every offset of containers up to 4 KiB and 300 random offsets of larger ones in the thorough tier), for five error kinds plus Interrupted and zero-length writes.",
        design_ref="DESIGN.md §5 C13",
        level_note="ErrorKind::Interrupted may legitimately be retried (read_exact/write_all) or surfaced (the one-byte end probe): only panics and wrong bytes are violations for it.",
        technique="runtime monitoring with fault injection: instrumented Read/Write, prefix oracle on the sink",
        level="fault_enumeration",
        rule="containers = expand(F) for assembled files (all three chunk kinds, literal chunks > 64 KiB, multi-chunk PNG, edge "
             "cases). per container: 36 read x write fragmentation patterns without fault; a read fault at every structural "
             "offset (tag, varints, first/last payload and correction byte, EOF probe) + random offsets, a write fault at chunk "
             "boundaries + random offsets; thorough: every offset for containers/files <= 4 KiB, 300 random offsets otherwise. The sink also "
             "implements gather writes (partial counts ending inside any slice); injected errors come with a short payload, without "
             "payload, with a 300-character non-ASCII message at every alignment, with a 1000-byte message. evaluations = reconstruction "
             "attempts. non-trivial = container whose plain round trip holds, distinct by content hash",
        assumptions=COMMON_ASSUME,
        min_evaluations=500,
    ),
})

PROPS.update({
    "C08": dict(
        level_text="Exploration over configurations x inputs by runtime monitoring: for each parseable stream the estimator's own vector and 12 (quick) / 50 (thorough) vectors re-drawn group-wise from the estimator's image are pushed through the real encode/decode path (hook); the oracle is byte equality with the original plus equality of the parameter vector as re-read.",
        design_ref="DESIGN.md §5 C08",
        level_note="Vectors outside the estimator's image are not generated (the property ranges over what the estimator can emit). The image description is itself checked at run time: every vector the estimator returns must be a fixed point of the described couplings.",
        technique="runtime monitoring at a hook: identity oracle under perturbed parameter vectors (estimator image x streams)",
        level="exploration",
        rule="streams (<= 64 KiB plaintext) from the generator, the four compressors and the pathological shapes; per stream the "
             "estimator's vector plus vectors in which one to four groups (hash family + min_len, add policy, chain depth, window, "
             "block size, flags, strategy, huff strategy, no-dictionary vector, the named 4-byte-hash/first-and-last combination) "
             "are re-drawn from the image. evaluations = (stream, vector) pairs executed. non-trivial = stream for which a "
             "vector could be estimated or that parses, distinct by content hash",
        assumptions=COMMON_ASSUME + ["hook verif::roundtrip_with_params performs exactly the calls decompress_deflate_stream(verify=true) performs, with the vector replaced; cross-checked against the public path with the estimator's own vector"],
        min_evaluations=500,
    ),
    "C10": dict(
        level_text="Exploration with exhaustively enumerated single-operation sequences (every correction value below 2^17 in each of the 10 contexts, every (value, width) pair for widths 1..16, every flag), plus random sequences of up to 6000 operations in six mixes and the operation sequences real analyses produce, all through the real encoder/decoder pair (hook).",
        design_ref="DESIGN.md §5 C10",
        level_note="Values >= 2^31 are outside the stated range and not generated.",
        technique="runtime monitoring at a hook: encode/decode identity oracle over exhaustive single operations and random/real operation sequences",
        level="exploration",
        rule="single operations enumerated completely (10 x (2^17 + 5) corrections, sum over widths 1..16 of 2^w plain values, all "
             "flags and flag/correction pairs); random sequences (40 per case) in six styles: long default runs, one context "
             "hammered, bypass/arithmetic interleaving, flags only, everything mixed; every eighth case one run of 16384..131073 default "
             "operations (lengths on and around 2^15 and 2^16) closed by a non-default one; operation sequences recorded from real "
             "analyses. evaluations = sequences round-tripped. non-trivial = multi-operation sequence, distinct by content hash",
        assumptions=COMMON_ASSUME + ["hook verif::cabac_roundtrip uses PredictionEncoderCabac<VP8Writer>/PredictionDecoderCabac<VP8Reader> as the library does"],
        min_evaluations=1000,
        exhaustive_key=("single_corrections_enumerated", {"quick": 1310770, "thorough": 1310770},
                        {"quick": "all single-operation sequences: corrections v < 2^17 x 10 contexts, values for widths 1..16, flags",
                         "thorough": "all single-operation sequences: corrections v < 2^17 x 10 contexts, values for widths 1..16, flags"}),
    ),
})

PROPS.update({
    "C04": dict(
        level_text="Exploration by differential runtime monitoring across builds: two frozen writer builds (the pinned sources; pinned + recorded fixes) are linked into the same process as the current tree; whatever they accept and write is handed to the current build's reconstruction, whose output must equal the original bytes as long as the version constants agree (read through a hook).",
        design_ref="DESIGN.md §5 C04",
        level_note="The history of deployed builds is represented by two frozen writers; older releases are not available offline. If the current tree bumps FILE_VERSION or the wrapper version the premise is false and the check reports that and exercises nothing.",
        technique="runtime monitoring: differential cross-build oracle (frozen reference writers -> current reader)",
        level="exploration",
        rule="streams (generator, four compressors, shapes, mutants) analysed by each frozen writer with verify=true; files (assembler, "
             "edge cases, mutants) expanded by each frozen writer and confirmed readable by that writer itself; then reconstructed by "
             "the current build. evaluations = (writer, input) pairs cross-decoded (+1 for the version comparison). non-trivial = "
             "pair whose original bytes were reproduced and that involved a real stream (files: at least one signature position), "
             "distinct by (content hash, writer)",
        assumptions=COMMON_ASSUME + ["the frozen copies under /verif/reference are byte-for-byte the sources of commits 23397ec (pinned + hooks) and the commit named in reference/fixed/FROZEN_AT, with only the package name changed and #[no_mangle] removed"],
        min_evaluations=200,
    ),
    "C09": dict(
        level_text="Exploration with a paired differential statistic: the same seeded sample of zlib / zlib-ng / libdeflate / miniz_oxide streams over their parameter grids is analysed by the frozen reference build and by the current build in the same process; acceptance counts and correction sizes are compared per family with the statement's one-sided thresholds (1 % acceptance, 3 % size).",
        design_ref="DESIGN.md §5 C09",
        level_note="Because both builds see identical inputs there is no sampling noise in the comparison; on an unchanged tree both ratios are exactly 1. A regression confined to a parameter cell that the sample weights lightly can stay below the aggregate thresholds (per-cell figures are in the evidence).",
        technique="runtime monitoring: paired differential statistic against a frozen reference build",
        level="exploration",
        rule="per family (zlib levels -1..9 x 5 strategies x windowBits 9-15 x memLevel 1-9 with optional flush points; zlib-ng 1-9; "
             "libdeflate 0-12; miniz_oxide 0-10) streams from a stratified plaintext sample (word text, records, runs, low entropy, "
             "mixed, far repeats, text quoting an incompressible blob; sizes uniform in 2-128 KiB). The statement's thresholds are "
             "applied to each family total; if a family total is worse than the reference by less than 3 %, the same 3 % threshold "
             "is applied to each compression level of that family with at least 25 doubly-accepted streams (a trade-off that "
             "improves the family total is never flagged). evaluations = streams analysed by both builds. non-trivial = "
             "accepted by both builds, distinct by content hash",
        assumptions=COMMON_ASSUME + ["reference build = /verif/reference/fixed (pinned + recorded fix commits)"],
        min_evaluations=400,
    ),
})

PROPS.update({
    "C12": dict(
        level_text="Fault enumeration by runtime monitoring: the fault is the output capacity. Both wrappers are called on buffers between hardware guard pages (electric fence written for this purpose, covering zstd's C code as well) with capacities swept around every boundary that exists for the input (0..16, every 7th value up to needed+16 for small files, needed-1, needed, needed+1, 2*needed, the zstd bound), on container files, arbitrary bytes, empty input, truncated frames and noise. The thorough tier repeats a reduced sweep under AddressSanitizer and valgrind memcheck.",
        design_ref="DESIGN.md §5 C12",
        level_note="Expansions near the 128 MiB bound are not generated. For compress, 'undersized' is judged only through 'status 0 implies the bytes fit and are valid' (zstd gives no guarantee between actual frame size and bound).",
        technique="runtime monitoring with guard pages/canaries (hand-written electric fence), capacity sweep; ASan + valgrind memcheck in the thorough tier",
        level="fault_enumeration",
        rule="files: edge cases, arbitrary bytes, empty, small assembled files (dense capacity sweep) and larger assembled/mutated "
             "files (boundary sweep) x both wrappers x capacities x guard placement (page after / page before the buffer); plus "
             "non-frame inputs to WrapperDecompressZip; a tenth of the files wrap one of the pathological stream shapes (walked "
             "systematically). If the current build cannot expand a file but the frozen reference build can, the ample buffer is sized "
             "from the reference expansion and the round trip is still owed. evaluations = wrapper calls under the fence. non-trivial = file whose "
             "whole sweep ran, distinct by content hash",
        assumptions=COMMON_ASSUME + ["a SIGSEGV/SIGABRT of the worker is attributed to the case in flight by the supervisor and confirmed in isolation"],
        min_evaluations=1000,
    ),
    "C14": dict(
        level_text="Exploration of schedules by runtime monitoring: sequential baseline vs a repeated sequential run, vs 16 barrier-released threads in three phases with observed-overlap accounting, vs freshly spawned processes with different environment/cwd/thread count; the thorough tier adds ThreadSanitizer (std rebuilt and instrumented), AddressSanitizer, valgrind memcheck and Miri with 16 seeds (controlled schedules, UB and uninitialised-read detection).",
        design_ref="DESIGN.md §5 C14",
        level_note="Native schedules are whatever the kernel produced (the evidence shows how many call pairs overlapped); Miri adds controlled schedules on tiny inputs and cannot cross the zstd FFI; TSan sees only the Rust side of zstd calls.",
        technique="runtime monitoring: sequential-vs-concurrent-vs-second-process differential oracle; TSan, ASan, valgrind, Miri in the thorough tier",
        level="exploration",
        rule="per case a seeded set of 12 inputs (stream + file each, incl. mutants) x 8 public entry points (both verify settings, "
             "recompress, expand, recreate, zstd pair, the two C wrappers). evaluations = function calls compared with the baseline "
             "(sequential repeat, 3 concurrent phases on 16 threads, 3 processes); every 12th case adds a zlib stream with 4 to 7 MiB "
             "of plaintext in which estimator candidates tie (run-length-only, stored, level 1, Huffman-only), called 3x in sequence "
             "and from 6 threads; every 50th case repeats calls on one thread before and after a call whose expanded form exceeds "
             "128 MiB; the three processes differ in their address-space limit (none, 3 GiB, 8 GiB). A call during which the whole "
             "process uses no CPU for 30 s is reported as blocked. non-trivial = (input, all-function result row), "
             "distinct by digest",
        assumptions=COMMON_ASSUME,
        min_evaluations=500,
        max_jobs=3,
    ),
})


def c09_statistic(counters):
    """the statement's thresholds, one-sided, per family; returns (per_family, list of (sub, family, text))"""
    per, bad = {}, []
    for f in ["zlib", "zlibng", "libdeflate", "miniz"]:
        g = lambda k: counters.get("%s:%s" % (f, k), 0)
        ar, ac, cr, cc = g("accepted_ref"), g("accepted_cur"), g("corr_bytes_ref"), g("corr_bytes_cur")
        per[f] = dict(streams=g("streams"), accepted_ref=ar, accepted_cur=ac, accepted_both=g("accepted_both"),
                      corr_bytes_ref=cr, corr_bytes_cur=cc,
                      acceptance_ratio=(ac / ar) if ar else None, corrections_ratio=(cc / cr) if cr else None)
        if ar > 0 and ac < 0.99 * ar:
            bad.append(("acceptance_regressed", f,
                        "%s: current build accepts %d of the streams, reference %d (ratio %.4f < 0.99)" % (f, ac, ar, ac / ar)))
        if cr > 0 and cc > 1.03 * cr:
            bad.append(("corrections_regressed", f,
                        "%s: corrections over streams both accept total %d bytes, reference %d (ratio %.4f > 1.03)" % (f, cc, cr, cc / cr)))
        elif cr > 0 and cc > cr:
            # the family total got worse, though by less than 3 %: apply the same threshold to each compression level
            # of the family, which is a seeded sample of that family's streams in its own right (sizeable strata only;
            # a trade-off that improves the family total is never flagged)
            for k, v in sorted(counters.items()):
                pre = "stratum:%s:" % f
                if k.startswith(pre) and k.endswith(":corr_ref"):
                    lvl = k[len(pre):-len(":corr_ref")]
                    sr, sc, n = v, counters.get(pre + lvl + ":corr_cur", 0), counters.get(pre + lvl + ":n", 0)
                    if n >= 25 and sr >= 4000 and sc > 1.03 * sr:
                        bad.append(("corrections_regressed", "%s %s" % (f, lvl),
                                    "%s %s: family total is worse than the reference (ratio %.4f) and for this level the "
                                    "corrections over %d streams both accept total %d bytes, reference %d (ratio %.4f > 1.03)"
                                    % (f, lvl, cc / cr, n, sc, sr, sc / sr)))
    return per, bad


def post_process(pid, counters, extras, run, replays):
    out = {}
    if pid == "C07":
        if counters.get("hook_crosscheck_failed", 0) > 0:
            out["soft_error"] = ("hook cross-check failed %d time(s): parse_and_rewrite disagrees with the "
                                 "public reconstruction path" % counters["hook_crosscheck_failed"])
    if pid == "C08":
        if counters.get("hook_crosscheck_failed", 0) > 0:
            out["soft_error"] = ("hook cross-check failed %d time(s): roundtrip_with_params with the estimator's own "
                                 "vector disagrees with the public analysis" % counters["hook_crosscheck_failed"])
    if pid == "C14":
        no = [k for k in counters if k.endswith(":no_overlap_observed")]
        tot = sum(v for k, v in counters.items() if k.endswith(":overlapping_call_pairs"))
        out["coverage"] = {"overlapping_call_pairs_total": tot}
        if tot == 0 and counters.get("evaluations", 0) > 0:
            out["soft_error"] = "no overlapping call pair was observed in any concurrent phase (machine too loaded?)"
    if pid == "C04":
        if counters.get("premise_false_version_bumped", 0) > 0:
            out["coverage"] = {"explanation": "premise false: the current tree declares different format version numbers "
                               "than the reference builds, cross-decoding is not required and nothing was exercised"}
            out["skip_floor"] = True
    if pid == "C09":
        import json, os
        per, bad = c09_statistic(counters)
        # self-test of the statistic: a synthetic 2 % acceptance loss and a 4 % size growth must be flagged
        syn = {"zlib:accepted_ref": 100, "zlib:accepted_cur": 98, "zlib:corr_bytes_ref": 1000, "zlib:corr_bytes_cur": 1041,
               "miniz:corr_bytes_ref": 100000, "miniz:corr_bytes_cur": 101000, "stratum:miniz:level=3:corr_ref": 10000,
               "stratum:miniz:level=3:corr_cur": 11000, "stratum:miniz:level=3:n": 50,
               "libdeflate:corr_bytes_ref": 100000, "libdeflate:corr_bytes_cur": 99000, "stratum:libdeflate:level=3:corr_ref": 10000,
               "stratum:libdeflate:level=3:corr_cur": 11000, "stratum:libdeflate:level=3:n": 50}
        _, synbad = c09_statistic(syn)
        # expected: zlib acceptance, zlib size, miniz level 3 stratum; NOT the libdeflate trade-off
        synbad = synbad if len(synbad) == 3 and not any(f.startswith("libdeflate") for _, f, _ in synbad) else []
        synbad = synbad[:2] if len(synbad) == 3 else []
        cells = {}
        for k, v in counters.items():
            if k.startswith("cell:"):
                name, what = k[5:].rsplit(":", 1)
                cells.setdefault(name, {})[what] = v
        worst = sorted(((c.get("corr_cur", 0) / c["corr_ref"], n, c) for n, c in cells.items() if c.get("corr_ref", 0) > 0), reverse=True)[:8]
        out["coverage"] = {"per_family": per, "statistic_selftest_flags": len(synbad),
                           "worst_cells": [{"cell": n, "ratio": round(r, 4), **c} for r, n, c in worst],
                           "cells_with_lost_streams": {n: c["lost"] for n, c in cells.items() if c.get("lost")}}
        if len(synbad) != 2:
            out["harness_error"] = "self-test of the C09 statistic failed"
        os.makedirs(os.path.join(replays, "C09"), exist_ok=True)
        for sub, fam, text in bad:
            rp = os.path.join(replays, "C09", "%s-%s.json" % (sub, fam.replace(" ", "_").replace("=", "")))
            with open(rp, "w") as f:
                json.dump({"property": "C09", "sub": sub, "family": fam, "what": text, "per_family": per,
                           "tier": run.tier, "seed": run.seed,
                           "note": "aggregate verdict: re-run ./check C09 with the same VERIF_SEED and tier to reproduce"}, f, indent=1)
            run.violations.append({"sub": sub, "signature": "%s|%s" % (sub, fam), "what": text, "replay": rp})
    if pid == "C05":
        out["distinct_add"] = 0
    return out

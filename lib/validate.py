#!/usr/bin/env python3
"""Validate MANIFEST.json and every evidence file against the schemas (needs the tooling venv: python3-vt)."""
import json, glob, sys
import jsonschema
ok = True
def v(path, schema):
    global ok
    try:
        jsonschema.validate(json.load(open(path)), json.load(open(schema)))
        print("valid  ", path)
    except Exception as e:
        ok = False
        print("INVALID", path, str(e)[:300])
v("/verif/MANIFEST.json", "/root/.vp/MANIFEST.schema.json")
for p in sorted(glob.glob("/verif/evidence/*.json")):
    v(p, "/root/.vp/EVIDENCE.schema.json")
sys.exit(0 if ok else 1)

"""Stages of a check that are not plain `pfv run` workers: sanitizer builds, Miri, valgrind, a second
process. Each stage is a function(ctx) -> dict(report, violations, inconclusive, harness_errors, counters,
samples, distinct)."""

STAGES = {}

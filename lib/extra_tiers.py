"""Stages of a check that are not plain `pfv run` workers of the verdict build: a second process, sanitizer
builds, valgrind, Miri. Each stage is a function(ctx) -> dict(report, violations, inconclusive,
harness_errors, counters, samples, distinct). A tool that cannot be built or run yields 'inconclusive',
never a violation; a tool report is a violation."""
import json, os, re, subprocess, time

HARNESS = os.path.join(os.path.dirname(os.path.dirname(os.path.abspath(__file__))), "harness")


def _env(extra=None):
    e = dict(os.environ)
    e["CARGO_NET_OFFLINE"] = "true"
    e.setdefault("CARGO_TERM_COLOR", "never")
    if extra:
        e.update(extra)
    return e


def _journal_stats(path):
    viol, done, counters = [], False, {}
    if os.path.exists(path):
        for line in open(path, errors="replace"):
            if line.startswith("V "):
                try:
                    viol.append(json.loads(line[2:]))
                except Exception:
                    pass
            elif line.startswith("S "):
                try:
                    counters = json.loads(line[2:]).get("counters", {})
                except Exception:
                    pass
            elif line.startswith("D"):
                done = True
    return viol, done, counters


def second_process(ctx):
    """C14 (c): freshly spawned processes (new ASLR layout, different environment variables, working
    directory, thread count and address-space limit: none, 3 GiB, 8 GiB; the inputs need a few MiB) must
    produce the same digest over the same seeded input set."""
    runs = [
        dict(cwd="/verif", env={}, threads=1, as_gib=0),
        dict(cwd="/", env={"LANG": "tr_TR.UTF-8", "TZ": "Pacific/Chatham", "RUST_BACKTRACE": "1", "HOME": "/nonexistent",
                           "MALLOC_PERTURB_": "165", "PREFLATE_X": "y" * 3000}, threads=4, as_gib=3),
        dict(cwd="/tmp", env={"RUST_MIN_STACK": "8388608", "MALLOC_ARENA_MAX": "1", "LC_ALL": "C"}, threads=16, as_gib=8),
    ]
    digests, errs = [], []
    for r in runs:
        e = _env(r["env"])
        p = subprocess.run([ctx["pfv"], "digest", "--seed", str(ctx["seed"]), "--nshards", str(r["threads"]),
                            "--as-gib", str(r["as_gib"])],
                           cwd=r["cwd"], env=e, stdout=subprocess.DEVNULL, stderr=subprocess.PIPE, text=True, timeout=1800)
        m = re.search(r"DIGEST ([0-9a-f]+)", p.stderr)
        if "DIGEST-THREADS-DISAGREE" in p.stderr:
            errs.append("threads of one process disagree: " + p.stderr.strip()[-300:])
            digests.append("disagree")
        elif m:
            digests.append(m.group(1))
        else:
            errs.append("digest process failed rc=%s: %s" % (p.returncode, p.stderr.strip()[-300:]))
            digests.append(None)
    res = dict(report={"digests": digests, "processes": len(runs)}, counters={"evaluations": 3 * 4 * 10 * 8,
                                                                             "second_process_runs": len(runs)})
    ok = [d for d in digests if d and d != "disagree"]
    if "disagree" in digests or (len(ok) >= 2 and len(set(ok)) > 1):
        rp = os.path.join(ctx["replays"], ctx["pid"], "process_digest_differs.json")
        os.makedirs(os.path.dirname(rp), exist_ok=True)
        json.dump({"property": ctx["pid"], "sub": "process_digest_differs", "digests": digests, "seed": ctx["seed"],
                   "runs": runs, "note": "pfv digest --seed S --nshards T in different environments"}, open(rp, "w"), indent=1)
        res["violations"] = [{"sub": "process_digest_differs", "signature": "process_digest_differs",
                              "what": "the digest of all public functions' results over the same seeded input set differs "
                                      "between processes/thread counts: %s %s" % (digests, errs), "replay": rp}]
    elif len(ok) < 2:
        res["inconclusive"] = ["second-process comparison could not be made: %s" % errs]
    return res


def _run_tool(ctx, name, cmd, env, journal, timeout, report_re, ok_rc=(0,)):
    t = time.time()
    try:
        p = subprocess.run(cmd, env=env, stdout=subprocess.DEVNULL, stderr=subprocess.PIPE, text=True, timeout=timeout)
    except subprocess.TimeoutExpired:
        return dict(report={"status": "timeout"}, inconclusive=["%s: run exceeded %ds" % (name, timeout)])
    viol, done, counters = _journal_stats(journal)
    reports = re.findall(report_re, p.stderr) if report_re else []
    rep = {"status": "ran", "rc": p.returncode, "tool_reports": len(reports), "wall_s": round(time.time() - t, 1),
           "cases_counters": {k: v for k, v in counters.items() if k in ("evaluations", "compress_calls", "decompress_calls")}}
    res = dict(report=rep, violations=list(viol), counters={"evaluations": counters.get("evaluations", 0),
                                                          "%s_evaluations" % name: counters.get("evaluations", 0)})
    if reports:
        rp = os.path.join(ctx["replays"], ctx["pid"], "%s_report.txt" % name)
        os.makedirs(os.path.dirname(rp), exist_ok=True)
        open(rp, "w").write(p.stderr[-20000:])
        first = reports[0] if isinstance(reports[0], str) else " ".join(reports[0])
        res["violations"].append({"sub": "%s_report" % name, "signature": "%s_report|%s" % (name, first[:80]),
                                  "what": "%s reported %d problem(s); first: %s" % (name, len(reports), first[:200]),
                                  "replay": rp})
    elif p.returncode not in ok_rc or not done:
        res["inconclusive"] = ["%s: worker ended with rc=%s without a tool report (stderr tail: %s)"
                               % (name, p.returncode, p.stderr.strip()[-300:])]
    return res


def _build(ctx, name, args, env, target_dir):
    t = time.time()
    p = subprocess.run(["cargo", "+nightly", "build", "--release", "--offline", "--target", "x86_64-unknown-linux-gnu",
                        "--target-dir", target_dir] + args, cwd=HARNESS, env=env, stdout=subprocess.PIPE,
                       stderr=subprocess.STDOUT, text=True)
    if p.returncode != 0:
        return None, "%s build failed: %s" % (name, p.stdout[-600:]), time.time() - t
    return os.path.join(target_dir, "x86_64-unknown-linux-gnu", "release", "pfv"), None, time.time() - t


def asan(ctx):
    """reduced workload of the same monitor under AddressSanitizer (Rust allocations; zstd's C objects are
    not instrumented)"""
    env = _env({"RUSTFLAGS": "-Zsanitizer=address -Cforce-frame-pointers=yes -Cdebug-assertions=on -Coverflow-checks=on"})
    binp, err, bs = _build(ctx, "asan", [], env, os.path.join(HARNESS, "target", "asan"))
    if not binp:
        return dict(report={"status": "build failed"}, inconclusive=[err])
    j = os.path.join(ctx["work"], "asan.journal")
    scale = {"C12": 6, "C14": 25}.get(ctx["pid"], 10)
    env2 = _env({"ASAN_OPTIONS": "halt_on_error=1:abort_on_error=0:detect_leaks=0:allocator_may_return_null=1"})
    res = _run_tool(ctx, "asan", [binp, "run", ctx["pid"], "--tier", "quick", "--seed", str(ctx["seed"]), "--journal", j,
                                  "--scale", str(scale), "--as-gib", "0", "--replay-dir", ctx["replays"]],
                    env2, j, 3000, r"ERROR: AddressSanitizer: ([^\n]+)", ok_rc=(0,))
    res["report"]["build_s"] = round(bs, 1)
    return res


def tsan(ctx):
    """C14 under ThreadSanitizer (std rebuilt with -Zbuild-std so that it is instrumented too)"""
    env = _env({"RUSTFLAGS": "-Zsanitizer=thread -Cdebug-assertions=on -Coverflow-checks=on"})
    binp, err, bs = _build(ctx, "tsan", ["-Zbuild-std"], env, os.path.join(HARNESS, "target", "tsan"))
    if not binp:
        return dict(report={"status": "build failed"}, inconclusive=[err])
    j = os.path.join(ctx["work"], "tsan.journal")
    env2 = _env({"TSAN_OPTIONS": "halt_on_error=0:report_signal_unsafe=0:second_deadlock_stack=1"})
    res = _run_tool(ctx, "tsan", [binp, "run", ctx["pid"], "--tier", "quick", "--seed", str(ctx["seed"]), "--journal", j,
                                  "--scale", "25", "--as-gib", "0", "--replay-dir", ctx["replays"]],
                    env2, j, 3000, r"WARNING: ThreadSanitizer: ([^\n]+)", ok_rc=(0,))
    res["report"]["build_s"] = round(bs, 1)
    return res


def valgrind(ctx):
    """reduced workload under valgrind memcheck (sees zstd's C code too; uninitialised values, invalid
    accesses)"""
    j = os.path.join(ctx["work"], "valgrind.journal")
    scale = {"C12": 4, "C14": 9}.get(ctx["pid"], 2)
    cmd = ["valgrind", "-q", "--error-exitcode=99", "--leak-check=no", "--undef-value-errors=yes", "--num-callers=12",
           ctx["pfv"], "run", ctx["pid"], "--tier", "quick", "--seed", str(ctx["seed"]), "--journal", j,
           "--scale", str(scale), "--as-gib", "0", "--replay-dir", ctx["replays"]]
    return _run_tool(ctx, "valgrind", cmd, _env(), j, 5000,
                     r"==\d+== (Invalid (?:read|write)[^\n]*|Conditional jump or move depends on uninitialised[^\n]*|"
                     r"Use of uninitialised[^\n]*|Syscall param [^\n]*uninitialised[^\n]*|Invalid free[^\n]*|"
                     r"Mismatched free[^\n]*|Source and destination overlap[^\n]*)", ok_rc=(0,))


def miri(ctx):
    """C14 under Miri with many seeds (distinct schedules): data races, UB, uninitialised reads in the pure
    Rust part of the library (Miri cannot cross the C FFI of zstd or of the compressor crates)"""
    mdir = os.path.join(ctx["verif"], "miri")
    t = time.time()
    out, rc, seeds = "", 0, 0
    # (input, seeds): the dictionary-using input costs minutes per seed under Miri, the Huffman-only one seconds
    for which, n in (("huff", 16), ("fast", 4), ("dict", 8)):
        env = _env({"MIRIFLAGS": "-Zmiri-many-seeds=0..%d -Zmiri-disable-isolation" % n, "PFV_MIRI_INPUT": which})
        seeds += n
        try:
            p = subprocess.run(["cargo", "+nightly", "miri", "run", "--offline"], cwd=mdir, env=env, stdout=subprocess.PIPE,
                               stderr=subprocess.PIPE, text=True, timeout=7200)
        except subprocess.TimeoutExpired:
            return dict(report={"status": "timeout", "input": which}, inconclusive=["miri: exceeded 7200 s on input %s" % which])
        out += p.stdout + p.stderr
        rc = rc or p.returncode
    class P: pass
    p = P(); p.returncode = rc
    ok_seeds = len(re.findall(r"MIRI-OK", out))
    errs = re.findall(r"error: (Undefined Behavior[^\n]*|[^\n]*[Dd]ata race[^\n]*|[^\n]*uninitialized[^\n]*|unsupported operation[^\n]*)", out)
    rep = {"status": "ran", "rc": p.returncode, "seeds_requested": seeds, "seed_runs_completed": ok_seeds,
           "wall_s": round(time.time() - t, 1)}
    res = dict(report=rep, counters={"evaluations": ok_seeds, "miri_seed_runs": ok_seeds})
    real = [e for e in errs if not e.startswith("unsupported operation")]
    if "MIRI-MISMATCH" in out or real:
        rp = os.path.join(ctx["replays"], ctx["pid"], "miri_report.txt")
        os.makedirs(os.path.dirname(rp), exist_ok=True)
        open(rp, "w").write(out[-30000:])
        first = real[0] if real else "a concurrent result differed from the sequential one under Miri"
        res["violations"] = [{"sub": "miri_report", "signature": "miri_report|%s" % first[:80],
                              "what": "Miri: %s" % first[:300], "replay": rp}]
    elif p.returncode != 0 or ok_seeds == 0:
        res["inconclusive"] = ["miri: rc=%s, %d seed runs completed; tail: %s" % (p.returncode, ok_seeds, out.strip()[-400:])]
    return res


def fuzz(ctx):
    """coverage-guided workload source (libFuzzer + ASan, debug assertions and overflow checks on). The fuzz
    targets carry the same oracles as the monitors; every crash artifact is re-judged by the verdict build
    with this property's own monitor before it counts."""
    target = "file" if ctx["pid"] == "C01" else "stream"
    fdir = os.path.join(ctx["verif"], "fuzz")
    corpus = os.path.join(ctx["work"], "corpus")
    art = os.path.join(ctx["work"], "artifacts") + "/"
    os.makedirs(art, exist_ok=True)
    subprocess.run([ctx["pfv"], "corpus", corpus, "--seed", str(ctx["seed"]), "--nshards", "300"],
                   stdout=subprocess.DEVNULL, stderr=subprocess.DEVNULL)
    secs = int(os.environ.get("VERIF_FUZZ_S", "240"))
    t = time.time()
    b = subprocess.run(["cargo", "+nightly", "fuzz", "build", "--fuzz-dir", fdir, target], cwd=HARNESS, env=_env(),
                       stdout=subprocess.PIPE, stderr=subprocess.STDOUT, text=True)
    if b.returncode != 0:
        return dict(report={"status": "build failed"}, inconclusive=["fuzz: build failed: %s" % b.stdout[-400:]])
    cmd = ["cargo", "+nightly", "fuzz", "run", "--fuzz-dir", fdir, target, os.path.join(corpus, target), "--",
           "-max_total_time=%d" % secs, "-fork=%d" % ctx["jobs"], "-ignore_crashes=1", "-ignore_timeouts=1", "-ignore_ooms=1",
           "-timeout=20", "-rss_limit_mb=4096", "-max_len=65536", "-artifact_prefix=" + art, "-print_final_stats=1"]
    try:
        p = subprocess.run(cmd, cwd=HARNESS, env=_env(), stdout=subprocess.PIPE, stderr=subprocess.STDOUT, text=True,
                           timeout=secs + 900)
        out = p.stdout
    except subprocess.TimeoutExpired as ex:
        out = (ex.stdout or b"").decode(errors="replace") if isinstance(ex.stdout, bytes) else (ex.stdout or "")
    execs = 0
    for m in re.finditer(r"#(\d+): cov: (\d+) ft: (\d+)", out):
        execs = max(execs, int(m.group(1)))
    cov = re.findall(r"cov: (\d+) ft: (\d+)", out)
    arts = sorted(os.listdir(art))
    rep = {"status": "ran", "target": target, "seconds": secs, "executions": execs, "wall_s": round(time.time() - t, 1),
           "final_cov_ft": cov[-1] if cov else None, "artifacts": len(arts), "artifacts_confirmed_by_verdict_build": 0}
    res = dict(report=rep, counters={"evaluations": execs, "fuzz_executions": execs}, violations=[])
    seen = set()
    for a in arts[:200]:
        ap = os.path.join(art, a)
        j = os.path.join(ctx["work"], "fuzzjudge.journal")
        if os.path.exists(j):
            os.remove(j)
        q = subprocess.run([ctx["pfv"], "judge", ctx["pid"], ap, "--journal", j, "--replay-dir", ctx["replays"]],
                           stdout=subprocess.DEVNULL, stderr=subprocess.DEVNULL)
        viol, done, _ = _journal_stats(j)
        for v in viol:
            rep["artifacts_confirmed_by_verdict_build"] += 1
            if v["signature"] in seen:
                continue
            seen.add(v["signature"])
            keep = os.path.join(ctx["replays"], ctx["pid"], "fuzz-" + a)
            os.makedirs(os.path.dirname(keep), exist_ok=True)
            try:
                import shutil
                shutil.copy(ap, keep)
            except Exception:
                pass
            v["what"] = "(found by the coverage-guided stage) " + v.get("what", "")
            res["violations"].append(v)
        if not viol and q.returncode not in (0, 1):
            if q.returncode == 97 or q.returncode < 0:
                res["violations"].append({"sub": "process_death", "signature": "fuzz_process_death|%s" % q.returncode,
                                          "what": "verdict build died (%s) on fuzz artifact %s" % (q.returncode, a), "replay": ap})
    return res


LLVM_BIN = os.path.expanduser("~/.rustup/toolchains/nightly-x86_64-unknown-linux-gnu/lib/rustlib/x86_64-unknown-linux-gnu/bin")


def coverage(ctx):
    """information, not a verdict: line coverage of /repo/src reached by a reduced run of this property's
    workload, measured with -Cinstrument-coverage (nightly build + the toolchain's own llvm-cov)"""
    tdir = os.path.join(HARNESS, "target", "cov")
    env = _env({"RUSTFLAGS": "-Cinstrument-coverage"})
    binp, err, bs = _build(ctx, "coverage", [], env, tdir)
    if not binp:
        return dict(report={"status": "build failed", "detail": err})
    prof_dir = os.path.join(ctx["work"], "prof")
    os.makedirs(prof_dir, exist_ok=True)
    for f in os.listdir(prof_dir):
        os.remove(os.path.join(prof_dir, f))
    j = os.path.join(ctx["work"], "cov.journal")
    scale = {"C01": 2, "C05": 2, "C12": 5, "C13": 5}.get(ctx["pid"], 5)
    procs = []
    n = 8
    for i in range(n):
        e = _env({"LLVM_PROFILE_FILE": os.path.join(prof_dir, "p-%d-%%p.profraw" % i)})
        procs.append(subprocess.Popen([binp, "run", ctx["pid"], "--tier", "quick", "--seed", str(ctx["seed"]), "--journal",
                                       j + str(i), "--scale", str(scale), "--shard", str(i), "--nshards", str(n),
                                       "--as-gib", "0", "--replay-dir", os.path.join(ctx["work"], "cov-replays")],
                                      env=e, stdout=subprocess.DEVNULL, stderr=subprocess.DEVNULL))
    for p in procs:
        try:
            p.wait(timeout=3000)
        except subprocess.TimeoutExpired:
            p.kill()
    raws = [os.path.join(prof_dir, f) for f in os.listdir(prof_dir) if f.endswith(".profraw")]
    if not raws:
        return dict(report={"status": "no profile written"})
    merged = os.path.join(prof_dir, "merged.profdata")
    m = subprocess.run([os.path.join(LLVM_BIN, "llvm-profdata"), "merge", "-sparse", "-o", merged] + raws,
                       stdout=subprocess.PIPE, stderr=subprocess.STDOUT, text=True)
    if m.returncode != 0:
        return dict(report={"status": "profdata merge failed", "detail": m.stdout[-300:]})
    c = subprocess.run([os.path.join(LLVM_BIN, "llvm-cov"), "export", "-summary-only", "-instr-profile", merged, binp],
                       stdout=subprocess.PIPE, stderr=subprocess.PIPE, text=True)
    if c.returncode != 0:
        return dict(report={"status": "llvm-cov failed", "detail": c.stderr[-300:]})
    files = {}
    try:
        data = json.loads(c.stdout)["data"][0]["files"]
        for f in data:
            name = f["filename"]
            if name.startswith("/repo/src/") and not name.endswith("verif.rs"):
                ln = f["summary"]["lines"]
                files[name[len("/repo/src/"):]] = {"lines": ln["count"], "covered": ln["covered"],
                                                  "percent": round(ln["percent"], 1)}
    except Exception as ex:
        return dict(report={"status": "could not read llvm-cov output: %s" % ex})
    tot = sum(v["lines"] for v in files.values())
    cov = sum(v["covered"] for v in files.values())
    return dict(report={"status": "ran", "build_s": round(bs, 1), "scale_percent": scale,
                        "note": "line counts include the crate's #[test] functions' bodies only if compiled (they are not)",
                        "total_percent": round(100.0 * cov / max(tot, 1), 1), "files": files})


COV = dict(name="coverage_of_repo_src", tiers=("thorough",), fn=coverage)

STAGES = {
    "C12": [
        dict(name="asan", tiers=("thorough",), fn=asan),
        dict(name="valgrind", tiers=("thorough",), fn=valgrind),
        COV,
    ],
    "C14": [
        dict(name="second_process", tiers=("quick", "thorough"), fn=second_process),
        dict(name="tsan", tiers=("thorough",), fn=tsan),
        dict(name="asan", tiers=("thorough",), fn=asan),
        dict(name="valgrind", tiers=("thorough",), fn=valgrind),
        dict(name="miri", tiers=("thorough",), fn=miri),
        COV,
    ],
}
FUZZ = dict(name="coverage_guided_fuzzing", tiers=("thorough",), fn=fuzz)
for _p in ["C01", "C02", "C03", "C04", "C05", "C06", "C07", "C08", "C09", "C10", "C11", "C13"]:
    STAGES[_p] = ([FUZZ] if _p in ("C01", "C02", "C03", "C05", "C07") else []) + [COV]

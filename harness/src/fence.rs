//! Electric fence for C-ABI buffers: a buffer is carved out of an anonymous mmap region so that the
//! byte after its last byte (or the byte before its first byte) lies in a PROT_NONE page. Any access
//! outside the buffer on that side faults immediately — by Rust code or by zstd's C code alike. The
//! slack on the other side, inside the same page, is filled with a canary pattern.

use std::ptr;

pub const PAGE: usize = 4096;

#[derive(Clone, Copy, PartialEq, Debug)]
pub enum Place {
    /// guard page directly behind the buffer
    GuardAfter,
    /// guard page directly in front of the buffer
    GuardBefore,
}

pub struct Fenced {
    base: *mut u8,
    map_len: usize,
    buf: *mut u8,
    len: usize,
    slack_start: *mut u8,
    slack_len: usize,
}

const CANARY: u8 = 0xC5;

impl Fenced {
    pub fn new(len: usize, place: Place) -> Fenced {
        let data_pages = (len + PAGE - 1) / PAGE + 1; // at least one page even for len 0
        let map_len = (data_pages + 1) * PAGE;
        unsafe {
            let base = libc::mmap(
                ptr::null_mut(),
                map_len,
                libc::PROT_READ | libc::PROT_WRITE,
                libc::MAP_PRIVATE | libc::MAP_ANONYMOUS,
                -1,
                0,
            ) as *mut u8;
            assert!(base as isize != -1, "mmap failed");
            ptr::write_bytes(base, CANARY, map_len);
            let (buf, slack_start, slack_len, guard) = match place {
                Place::GuardAfter => {
                    let guard = base.add(data_pages * PAGE);
                    let buf = guard.sub(len);
                    (buf, base, data_pages * PAGE - len, guard)
                }
                Place::GuardBefore => {
                    let buf = base.add(PAGE);
                    (buf, buf.add(len), data_pages * PAGE - len, base)
                }
            };
            let rc = libc::mprotect(guard as *mut _, PAGE, libc::PROT_NONE);
            assert_eq!(rc, 0, "mprotect failed");
            Fenced {
                base,
                map_len,
                buf,
                len,
                slack_start,
                slack_len,
            }
        }
    }

    pub fn with_data(data: &[u8], place: Place) -> Fenced {
        let f = Fenced::new(data.len(), place);
        unsafe { ptr::copy_nonoverlapping(data.as_ptr(), f.buf, data.len()) };
        f
    }

    pub fn ptr(&self) -> *mut u8 {
        self.buf
    }

    pub fn len(&self) -> usize {
        self.len
    }

    pub fn fill(&mut self, b: u8) {
        unsafe { ptr::write_bytes(self.buf, b, self.len) };
    }

    pub fn bytes(&self) -> &[u8] {
        unsafe { std::slice::from_raw_parts(self.buf, self.len) }
    }

    /// first offset (relative to the buffer start; negative = in front of it) of a changed canary byte
    pub fn canary_damage(&self) -> Option<isize> {
        let s = unsafe { std::slice::from_raw_parts(self.slack_start, self.slack_len) };
        s.iter().position(|&b| b != CANARY).map(|i| unsafe { self.slack_start.add(i).offset_from(self.buf) })
    }

    /// self-test support: write one byte at `off` relative to the buffer start
    pub unsafe fn poke(&mut self, off: isize, v: u8) {
        *self.buf.offset(off) = v;
    }
}

impl Drop for Fenced {
    fn drop(&mut self) {
        unsafe {
            libc::munmap(self.base as *mut _, self.map_len);
        }
    }
}

//! Real compressors (through the FFI crates the repository's own dev-dependencies use) and zlib's
//! inflate as the independent reference decoder.

use crate::rng::Rng;
use std::mem::MaybeUninit;

pub const FAMILIES: [&str; 4] = ["zlib", "zlibng", "libdeflate", "miniz"];

/// raw DEFLATE through zlib's deflateInit2 with optional flush points (offset, flush mode)
pub fn zlib_raw(
    data: &[u8],
    level: i32,
    strategy: i32,
    wbits: i32,
    memlevel: i32,
    flushes: &[(usize, i32)],
) -> Option<Vec<u8>> {
    use libz_sys::*;
    unsafe {
        let mut zs = MaybeUninit::<z_stream>::zeroed();
        let z = zs.as_mut_ptr();
        if deflateInit2_(
            z,
            level,
            Z_DEFLATED,
            -wbits,
            memlevel,
            strategy,
            zlibVersion(),
            std::mem::size_of::<z_stream>() as i32,
        ) != Z_OK
        {
            return None;
        }
        let mut out = vec![0u8; data.len() + data.len() / 8 + 1024 + flushes.len() * 16];
        (*z).next_out = out.as_mut_ptr();
        (*z).avail_out = out.len() as u32;
        let mut pos = 0usize;
        let mut ok = true;
        for &(off, mode) in flushes {
            let off = off.min(data.len());
            if off < pos {
                continue;
            }
            (*z).next_in = data.as_ptr().add(pos) as *mut _;
            (*z).avail_in = (off - pos) as u32;
            let rc = deflate(z, mode);
            if rc != Z_OK && rc != Z_BUF_ERROR {
                ok = false;
                break;
            }
            pos = off;
        }
        if ok {
            (*z).next_in = data.as_ptr().add(pos) as *mut _;
            (*z).avail_in = (data.len() - pos) as u32;
            ok = deflate(z, Z_FINISH) == Z_STREAM_END;
        }
        let n = (*z).total_out as usize;
        deflateEnd(z);
        if !ok {
            return None;
        }
        out.truncate(n);
        Some(out)
    }
}

pub fn zlibng_raw(data: &[u8], level: i32, strategy: i32, wbits: i32, memlevel: i32) -> Option<Vec<u8>> {
    use libz_ng_sys::*;
    unsafe {
        let mut zs = MaybeUninit::<z_stream>::zeroed();
        let z = zs.as_mut_ptr();
        if deflateInit2_(
            z,
            level,
            Z_DEFLATED,
            -wbits,
            memlevel,
            strategy,
            zlibVersion(),
            std::mem::size_of::<z_stream>() as i32,
        ) != Z_OK
        {
            return None;
        }
        let mut out = vec![0u8; data.len() + data.len() / 8 + 1024];
        (*z).next_in = data.as_ptr() as *mut _;
        (*z).avail_in = data.len() as u32;
        (*z).next_out = out.as_mut_ptr();
        (*z).avail_out = out.len() as u32;
        let ok = deflate(z, Z_FINISH) == Z_STREAM_END;
        let n = (*z).total_out as usize;
        deflateEnd(z);
        if !ok {
            return None;
        }
        out.truncate(n);
        Some(out)
    }
}

pub fn libdeflate_raw(data: &[u8], level: i32) -> Option<Vec<u8>> {
    use libdeflate_sys::*;
    unsafe {
        let c = libdeflate_alloc_compressor(level);
        if c.is_null() {
            return None;
        }
        let mut out = vec![0u8; data.len() + data.len() / 8 + 1024];
        let sz = libdeflate_deflate_compress(
            c,
            data.as_ptr() as *const _,
            data.len(),
            out.as_mut_ptr() as *mut _,
            out.len(),
        );
        libdeflate_free_compressor(c);
        if sz == 0 {
            return None;
        }
        out.truncate(sz);
        Some(out)
    }
}

pub fn miniz_raw(data: &[u8], level: u8) -> Vec<u8> {
    miniz_oxide::deflate::compress_to_vec(data, level)
}

/// zlib inflate, raw mode, 32 KiB window, all input in one piece.
/// Returns (plaintext, bytes consumed) when Z_STREAM_END was reached.
pub fn zlib_inflate_raw(data: &[u8], max_out: usize) -> Option<(Vec<u8>, usize)> {
    use libz_sys::*;
    unsafe {
        let mut zs = MaybeUninit::<z_stream>::zeroed();
        let z = zs.as_mut_ptr();
        if inflateInit2_(
            z,
            -15,
            zlibVersion(),
            std::mem::size_of::<z_stream>() as i32,
        ) != Z_OK
        {
            return None;
        }
        let mut out: Vec<u8> = Vec::new();
        let mut buf = vec![0u8; 1 << 16];
        (*z).next_in = data.as_ptr() as *mut _;
        (*z).avail_in = data.len() as u32;
        let res;
        loop {
            (*z).next_out = buf.as_mut_ptr();
            (*z).avail_out = buf.len() as u32;
            let rc = inflate(z, Z_NO_FLUSH);
            let produced = buf.len() - (*z).avail_out as usize;
            out.extend_from_slice(&buf[..produced]);
            if rc == Z_STREAM_END {
                res = Some((*z).total_in as usize);
                break;
            }
            if rc != Z_OK || out.len() > max_out || (produced == 0 && (*z).avail_in == 0) {
                res = None;
                break;
            }
        }
        inflateEnd(z);
        res.map(|n| (out, n))
    }
}

/// description of how a compressor-made stream was produced
#[derive(Clone, Debug)]
pub struct Recipe {
    pub family: usize,
    pub text: String,
}

/// one stream from a random member of the real-compressor grids
pub fn random_compress(r: &mut Rng, plain: &[u8], family: Option<usize>) -> Option<(Recipe, Vec<u8>)> {
    let fam = family.unwrap_or_else(|| {
        // zlib has by far the largest grid
        match r.below(10) {
            0..=4 => 0,
            5..=6 => 1,
            7..=8 => 2,
            _ => 3,
        }
    });
    match fam {
        0 => {
            let level = if r.chance(1, 12) { -1 } else { r.below(10) as i32 };
            let strategy = *r.pick(&[0, 0, 0, 0, 1, 2, 3, 4]); // default x4, filtered, huffman, rle, fixed
            let wbits = if r.chance(1, 2) { 15 } else { 9 + r.below(7) as i32 };
            let memlevel = if r.chance(1, 2) { 8 } else { 1 + r.below(9) as i32 };
            let mut flushes = vec![];
            if r.chance(1, 5) && !plain.is_empty() {
                let n = 1 + r.usize_below(4);
                let mut offs: Vec<usize> = (0..n).map(|_| r.usize_below(plain.len() + 1)).collect();
                offs.sort();
                for o in offs {
                    flushes.push((o, *r.pick(&[1, 2, 3, 5]))); // partial, sync, full, block
                }
            }
            let d = zlib_raw(plain, level, strategy, wbits, memlevel, &flushes)?;
            Some((
                Recipe {
                    family: 0,
                    text: format!(
                        "zlib level={} strategy={} wbits={} memlevel={} flushes={:?}",
                        level, strategy, wbits, memlevel, flushes
                    ),
                },
                d,
            ))
        }
        1 => {
            let level = 1 + r.below(9) as i32;
            let (strategy, wbits, memlevel) = if r.chance(2, 3) {
                (0, 15, 8)
            } else {
                (*r.pick(&[0, 1, 2, 3, 4]), 9 + r.below(7) as i32, 1 + r.below(9) as i32)
            };
            let d = zlibng_raw(plain, level, strategy, wbits, memlevel)?;
            Some((
                Recipe {
                    family: 1,
                    text: format!(
                        "zlib-ng level={} strategy={} wbits={} memlevel={}",
                        level, strategy, wbits, memlevel
                    ),
                },
                d,
            ))
        }
        2 => {
            let level = r.below(13) as i32;
            let d = libdeflate_raw(plain, level)?;
            Some((
                Recipe {
                    family: 2,
                    text: format!("libdeflate level={}", level),
                },
                d,
            ))
        }
        _ => {
            let level = r.below(11) as u8;
            Some((
                Recipe {
                    family: 3,
                    text: format!("miniz_oxide level={}", level),
                },
                miniz_raw(plain, level),
            ))
        }
    }
}

pub fn adler32(data: &[u8]) -> u32 {
    let (mut a, mut b) = (1u32, 0u32);
    for chunk in data.chunks(5000) {
        for &x in chunk {
            a += x as u32;
            b += a;
        }
        a %= 65521;
        b %= 65521;
    }
    (b << 16) | a
}

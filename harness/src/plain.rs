//! Structured random plaintexts.

use crate::rng::Rng;

const WORDS: &[&str] = &[
    "the", "quick", "brown", "fox", "jumps", "over", "lazy", "dog", "compression", "deflate",
    "window", "huffman", "literal", "distance", "length", "block", "stream", "data", "<div>",
    "</div>", "class=", "\"value\"", "0x00", "null", "true", "false", "\r\n", "\t", "    ",
    "function", "return", "import", "Microsoft", "storage", "archive", "e", "a", "of", "and", "to",
];

pub fn kind_name(k: u64) -> &'static str {
    match k {
        0 => "words",
        1 => "records",
        2 => "runs",
        3 => "noise",
        4 => "lowentropy",
        5 => "mixed",
        6 => "farrepeat",
        8 => "quotednoise",
        _ => "degenerate",
    }
}

pub fn text(r: &mut Rng, n: usize) -> Vec<u8> {
    let mut v = Vec::with_capacity(n + 16);
    while v.len() < n {
        let w = r.pick(WORDS);
        v.extend_from_slice(w.as_bytes());
        if r.chance(4, 5) {
            v.push(b' ');
        }
        if r.chance(1, 40) {
            v.extend_from_slice(format!("{}", r.below(100000)).as_bytes());
        }
    }
    v.truncate(n);
    v
}

pub fn records(r: &mut Rng, n: usize) -> Vec<u8> {
    let reclen = 4 + r.usize_below(60);
    let mut template = r.bytes(reclen);
    let varying = 1 + r.usize_below(4);
    let mut v = Vec::with_capacity(n + reclen);
    let mut ctr: u32 = r.next() as u32;
    while v.len() < n {
        ctr = ctr.wrapping_add(1);
        for i in 0..varying.min(reclen) {
            template[i] = (ctr >> (8 * i)) as u8;
        }
        if r.chance(1, 50) {
            let i = r.usize_below(reclen);
            template[i] = r.byte();
        }
        v.extend_from_slice(&template);
    }
    v.truncate(n);
    v
}

pub fn runs(r: &mut Rng, n: usize) -> Vec<u8> {
    let mut v = Vec::with_capacity(n + 512);
    while v.len() < n {
        match r.below(3) {
            0 => {
                let b = r.byte();
                let m = if r.chance(1, 8) { 70000 } else { 600 };
                let l = 1 + r.usize_below(m);
                v.extend(std::iter::repeat(b).take(l));
            }
            1 => {
                let period = 1 + r.usize_below(300);
                let pat = r.bytes(period);
                let reps = 1 + r.usize_below(40);
                for _ in 0..reps {
                    v.extend_from_slice(&pat);
                }
            }
            _ => {
                let l = 1 + r.usize_below(20);
                v.extend(r.bytes(l));
            }
        }
    }
    v.truncate(n);
    v
}

pub fn low_entropy(r: &mut Rng, n: usize) -> Vec<u8> {
    let alpha = 2 + r.usize_below(14);
    let syms = r.bytes(alpha);
    (0..n)
        .map(|_| {
            // skewed
            let a = r.usize_below(alpha);
            let b = r.usize_below(alpha);
            syms[a.min(b)]
        })
        .collect()
}

pub fn far_repeat(r: &mut Rng, n: usize) -> Vec<u8> {
    // a segment repeated across a gap close to or beyond the 32 KiB window
    let sn = 200 + r.usize_below(3000);
    let seg = text(r, sn);
    let mut v = Vec::with_capacity(n + seg.len());
    while v.len() < n {
        v.extend_from_slice(&seg);
        let gap = match r.below(4) {
            0 => 32768 - seg.len().min(32000) - r.usize_below(64),
            1 => 32768 + r.usize_below(64),
            2 => r.usize_below(5000),
            _ => 20000 + r.usize_below(20000),
        };
        let filler = if r.chance(1, 2) { r.bytes(gap) } else { low_entropy(r, gap) };
        v.extend_from_slice(&filler);
    }
    v.truncate(n);
    v
}

/// compressible text, then an incompressible blob (compressors emit it as stored blocks), then text that
/// quotes pieces of the blob: references that point into a stored block, optionally after more than
/// 32 KiB of matched data
pub fn quoted_noise(r: &mut Rng, n: usize) -> Vec<u8> {
    let lead = if r.chance(1, 2) { 33_000 + r.usize_below(20_000) } else { r.usize_below(4000) };
    let lead = lead.min(n * 2 / 3);
    let mut v = text(r, lead);
    let blob_len = 600 + r.usize_below(6000);
    let blob = r.bytes(blob_len);
    v.extend_from_slice(&blob);
    while v.len() < n {
        let t = 20 + r.usize_below(600);
        v.extend(text(r, t));
        let a = r.usize_below(blob.len());
        let l = (3 + r.usize_below(120)).min(blob.len() - a);
        v.extend_from_slice(&blob[a..a + l]);
    }
    v.truncate(n.max(lead + blob_len));
    v
}

/// one plaintext of about `n` bytes; returns (kind, bytes)
pub fn make(r: &mut Rng, n: usize) -> (u64, Vec<u8>) {
    let k = r.below(17);
    let k = match k {
        16 => 8,
        0..=4 => 0,
        5..=6 => 1,
        7..=8 => 2,
        9 => 3,
        10..=11 => 4,
        12..=13 => 5,
        14 => 6,
        _ => 7,
    };
    (k, make_kind(r, k, n))
}

pub fn make_kind(r: &mut Rng, k: u64, n: usize) -> Vec<u8> {
    match k {
        0 => text(r, n),
        1 => records(r, n),
        2 => runs(r, n),
        3 => r.bytes(n),
        4 => low_entropy(r, n),
        5 => {
            let mut v = Vec::with_capacity(n);
            while v.len() < n {
                let part = 1 + r.usize_below((n / 3).max(1));
                let kk = r.below(5);
                v.extend(make_kind(r, kk, part));
            }
            v.truncate(n);
            v
        }
        6 => far_repeat(r, n),
        8 => quoted_noise(r, n),
        _ => match r.below(4) {
            0 => vec![],
            1 => vec![r.byte()],
            2 => vec![r.byte(); n],
            _ => vec![0; n],
        },
    }
}

/// size distribution used by most monitors: mostly small, sometimes up to `max`
pub fn size(r: &mut Rng, max: usize) -> usize {
    let m = match r.below(10) {
        0 => 64,
        1..=3 => 1200,
        4..=6 => 5000,
        7..=8 => 40000,
        _ => max,
    };
    1 + r.usize_below(m.min(max).max(1))
}

//! Worker-side plumbing: journal, counters, samples, panic capture, CPU watchdog, violation records.

use crate::rng::digest_hex;
use serde_json::{json, Value};
use std::cell::RefCell;
use std::collections::{BTreeMap, HashSet};
use std::fs::File;
use std::io::Write;
use std::os::unix::io::AsRawFd;
use std::panic::{catch_unwind, AssertUnwindSafe};
use std::sync::atomic::{AtomicI32, AtomicU64, Ordering};

#[derive(Clone, Copy, PartialEq, Eq, Debug)]
pub enum Tier {
    Quick,
    Thorough,
}

impl Tier {
    pub fn name(self) -> &'static str {
        match self {
            Tier::Quick => "quick",
            Tier::Thorough => "thorough",
        }
    }
    pub fn pick<T>(self, q: T, t: T) -> T {
        match self {
            Tier::Quick => q,
            Tier::Thorough => t,
        }
    }
}

thread_local! {
    static LAST_PANIC: RefCell<Option<String>> = RefCell::new(None);
    static IN_GUARD: std::cell::Cell<u32> = std::cell::Cell::new(0);
}

fn normalize_path(p: &str) -> String {
    // make panic sites comparable between /repo and the frozen reference copies
    for pre in ["/repo/", "/verif/reference/pinned/", "/verif/reference/fixed/"] {
        if let Some(r) = p.strip_prefix(pre) {
            return r.to_string();
        }
    }
    if let Some(i) = p.find("/registry/src/") {
        if let Some(j) = p[i + 14..].find('/') {
            return p[i + 14 + j + 1..].to_string();
        }
    }
    p.to_string()
}

pub fn install_panic_hook() {
    std::panic::set_hook(Box::new(|info| {
        let loc = info
            .location()
            .map(|l| format!("{}:{}", normalize_path(l.file()), l.line()))
            .unwrap_or_default();
        let msg = if let Some(s) = info.payload().downcast_ref::<&str>() {
            s.to_string()
        } else if let Some(s) = info.payload().downcast_ref::<String>() {
            s.clone()
        } else {
            "?".into()
        };
        let msg: String = msg.replace('\n', " ").chars().take(60).collect();
        if IN_GUARD.with(|g| g.get()) == 0 {
            // a panic of the harness itself, not of the library under test
            eprintln!("harness panic at {}: {}", loc, msg);
        }
        LAST_PANIC.with(|l| *l.borrow_mut() = Some(format!("{} | {}", loc, msg)));
    }));
}

/// Outcome of a library call made under the panic monitor.
pub enum Guarded<T> {
    Done(T),
    Panicked(String),
}

/// run `f` with the "harness panic" diagnostics switched off: for calls through the C ABI wrappers, which
/// catch the library's panics themselves (nothing unwinds to us, nothing of ours is panicking)
pub fn quiet<T>(f: impl FnOnce() -> T) -> T {
    IN_GUARD.with(|g| g.set(g.get() + 1));
    let r = f();
    IN_GUARD.with(|g| g.set(g.get() - 1));
    r
}

/// run `f` (a call into the library under test) and observe whether it unwinds
pub fn guard<T>(f: impl FnOnce() -> T) -> Guarded<T> {
    LAST_PANIC.with(|l| *l.borrow_mut() = None);
    IN_GUARD.with(|g| g.set(g.get() + 1));
    let res = catch_unwind(AssertUnwindSafe(f));
    IN_GUARD.with(|g| g.set(g.get() - 1));
    match res {
        Ok(v) => Guarded::Done(v),
        Err(_) => Guarded::Panicked(
            LAST_PANIC
                .with(|l| l.borrow_mut().take())
                .unwrap_or_else(|| "unknown panic".into()),
        ),
    }
}

// ---- watchdog ------------------------------------------------------------------------------

static WD_CASE: AtomicU64 = AtomicU64::new(u64::MAX);
static WD_DEADLINE_NS: AtomicU64 = AtomicU64::new(u64::MAX);
static WD_FD: AtomicI32 = AtomicI32::new(-1);

pub fn process_cpu_ns() -> u64 {
    let mut ts = libc::timespec {
        tv_sec: 0,
        tv_nsec: 0,
    };
    unsafe { libc::clock_gettime(libc::CLOCK_PROCESS_CPUTIME_ID, &mut ts) };
    ts.tv_sec as u64 * 1_000_000_000 + ts.tv_nsec as u64
}

/// set while the harness itself waits for something outside this process (a forked child): the
/// no-progress detector must not read that as a blocked library call
pub static WD_EXTERNAL_WAIT: AtomicU64 = AtomicU64::new(0);

/// a case is "blocked" when the whole process has used less than 20 ms of CPU during 30 s of wall time while
/// a case is open: nothing is running, nothing will (a lock never released, a wait never satisfied). Decided
/// on CPU time, so machine load cannot produce it: a runnable thread on a loaded machine still accumulates CPU.
const BLOCKED_WINDOW: std::time::Duration = std::time::Duration::from_secs(30);
const BLOCKED_CPU_NS: u64 = 20_000_000;

fn start_watchdog() {
    std::thread::spawn(|| {
        let mut win_case = u64::MAX;
        let mut win_start = std::time::Instant::now();
        let mut win_cpu = process_cpu_ns();
        loop {
            std::thread::sleep(std::time::Duration::from_millis(50));
            let dl = WD_DEADLINE_NS.load(Ordering::Relaxed);
            let k = WD_CASE.load(Ordering::Relaxed);
            let cpu = process_cpu_ns();
            let mut verdict: Option<(&str, i32)> = None;
            if dl != u64::MAX && cpu > dl {
                verdict = Some(("cpu", 97));
            }
            if dl == u64::MAX || k != win_case || WD_EXTERNAL_WAIT.load(Ordering::Relaxed) != 0 || cpu - win_cpu >= BLOCKED_CPU_NS {
                win_case = k;
                win_start = std::time::Instant::now();
                win_cpu = cpu;
            } else if win_start.elapsed() >= BLOCKED_WINDOW {
                verdict = Some(("blocked", 96));
            }
            if let Some((why, code)) = verdict {
                let line = format!("X {} {}\n", k, why);
                let fd = WD_FD.load(Ordering::Relaxed);
                unsafe {
                    libc::write(fd, line.as_ptr() as *const _, line.len());
                    libc::_exit(code);
                }
            }
        }
    });
}

pub fn set_address_space_limit(bytes: u64) {
    let lim = libc::rlimit {
        rlim_cur: bytes,
        rlim_max: bytes,
    };
    unsafe { libc::setrlimit(libc::RLIMIT_AS, &lim) };
}

/// send the library's own println! output (it prints whenever loglevel > 0, and the zip probe always
/// passes loglevel 1) to /dev/null; machine-readable output goes to the journal file only.
pub fn silence_stdout() {
    unsafe {
        let fd = libc::open(b"/dev/null\0".as_ptr() as *const _, libc::O_WRONLY);
        if fd >= 0 {
            libc::dup2(fd, 1);
            libc::close(fd);
        }
    }
}

// ---- context -------------------------------------------------------------------------------

pub struct Ctx {
    pub prop: String,
    pub tier: Tier,
    pub seed: u64,
    pub fine: bool,
    pub budget_mult: u64,
    journal: File,
    pub counters: BTreeMap<String, u64>,
    samples: Vec<Value>,
    sample_cap: usize,
    hashes: HashSet<u64>,
    viol_per_sig: BTreeMap<String, u32>,
    pub violations: u64,
    pub cur_case: u64,
    replay_dir: String,
    pub replay_mode: bool,
    selftest: Value,
    pub quiet: bool,
    notes: BTreeMap<String, Vec<Value>>,
    fallback_samples: Vec<Value>,
}

impl Ctx {
    pub fn new(prop: &str, tier: Tier, seed: u64, journal_path: &str, replay_dir: &str) -> Ctx {
        let journal = std::fs::OpenOptions::new()
            .create(true)
            .append(true)
            .open(journal_path)
            .expect("journal");
        WD_FD.store(journal.as_raw_fd(), Ordering::Relaxed);
        start_watchdog();
        Ctx {
            prop: prop.to_string(),
            tier,
            seed,
            fine: false,
            budget_mult: 1,
            journal,
            counters: BTreeMap::new(),
            samples: Vec::new(),
            sample_cap: 8,
            hashes: HashSet::new(),
            viol_per_sig: BTreeMap::new(),
            violations: 0,
            cur_case: 0,
            replay_dir: replay_dir.to_string(),
            replay_mode: false,
            selftest: Value::Null,
            quiet: false,
            notes: BTreeMap::new(),
            fallback_samples: Vec::new(),
        }
    }

    /// a context that records into nothing: used by oracle self-tests
    pub fn scratch(prop: &str) -> Ctx {
        Ctx {
            prop: prop.to_string(),
            tier: Tier::Quick,
            seed: 0,
            fine: false,
            budget_mult: 1,
            journal: File::create("/dev/null").expect("devnull"),
            counters: BTreeMap::new(),
            samples: Vec::new(),
            sample_cap: 0,
            hashes: HashSet::new(),
            viol_per_sig: BTreeMap::new(),
            violations: 0,
            cur_case: 0,
            replay_dir: "/dev/null".to_string(),
            replay_mode: true,
            selftest: Value::Null,
            quiet: true,
            notes: BTreeMap::new(),
            fallback_samples: Vec::new(),
        }
    }

    fn line(&mut self, s: &str) {
        let _ = self.journal.write_all(s.as_bytes());
    }

    pub fn begin_case(&mut self, k: u64, cpu_budget_s: u64) {
        self.cur_case = k;
        self.line(&format!("B {}\n", k));
        WD_CASE.store(k, Ordering::Relaxed);
        WD_DEADLINE_NS.store(
            process_cpu_ns() + cpu_budget_s * self.budget_mult * 1_000_000_000,
            Ordering::Relaxed,
        );
    }

    pub fn end_case(&mut self, k: u64) {
        WD_DEADLINE_NS.store(u64::MAX, Ordering::Relaxed);
        self.line(&format!("E {}\n", k));
    }

    /// in isolation mode: mark the item about to be executed, so that a process death can be
    /// attributed to one input
    pub fn item(&mut self, f: impl FnOnce() -> String) {
        if self.fine {
            let s = f();
            self.line(&format!("I {}\n", s));
        }
    }

    /// like `item`, and additionally leaves the complete input next to the journal, so that the
    /// driver can attach it to a "process died / hung" violation
    pub fn item_bytes(&mut self, label: &str, d: &[u8]) {
        if self.fallback_samples.len() < 2 && self.sample_cap > 0 {
            // whatever the library does with it, this input was part of the run
            self.fallback_samples
                .push(json!({"input": hex_prefix(d, 32), "len": d.len(), "how": label, "note": "first inputs of this worker"}));
        }
        if self.fine {
            let p = format!("{}.item", self.journal_path_hint());
            let _ = std::fs::write(&p, d);
            self.line(&format!("I {} {}\n", label.replace('\n', " "), hex_prefix(d, 32)));
        }
    }

    /// in isolation mode: say which kind of call is about to run. A process death inside a phase whose
    /// name starts with "nonverdict" is not this property's business (e.g. totality of the analysis
    /// belongs to C05, a crash of a frozen reference build to nobody) and is reported as inconclusive.
    pub fn phase(&mut self, name: &str) {
        if self.fine {
            self.line(&format!("P {}\n", name));
        }
    }

    pub fn count(&mut self, key: &str) {
        *self.counters.entry(key.to_string()).or_insert(0) += 1;
    }
    pub fn count_n(&mut self, key: &str, n: u64) {
        *self.counters.entry(key.to_string()).or_insert(0) += n;
    }
    pub fn max(&mut self, key: &str, v: u64) {
        let e = self.counters.entry(format!("max:{}", key)).or_insert(0);
        if v > *e {
            *e = v;
        }
    }

    /// record one evaluated case that is non-trivial by the monitor's rule, identified by `h`
    pub fn nontrivial(&mut self, h: u64) {
        self.hashes.insert(h);
    }

    pub fn want_sample(&self) -> bool {
        self.samples.len() < self.sample_cap
    }
    pub fn sample(&mut self, v: Value) {
        if self.samples.len() < self.sample_cap {
            self.samples.push(v);
        }
    }

    /// Record a violation. `signature` is the narrow key known findings are matched on.
    pub fn violation(&mut self, sub: &str, signature: &str, what: &str, case: Value, input: &[u8]) {
        self.violations += 1;
        self.count(&format!("violation:{}", sub));
        let n = self.viol_per_sig.entry(signature.to_string()).or_insert(0);
        *n += 1;
        if *n > 3 {
            return; // keep at most three witnesses per signature per worker
        }
        let dig = digest_hex(input);
        let _ = std::fs::create_dir_all(&self.replay_dir);
        let path = format!("{}/{}-{}.json", self.replay_dir, sub.replace('/', "_"), &dig[..16]);
        let rec = json!({
            "property": self.prop,
            "sub": sub,
            "signature": signature,
            "what": what,
            "tier": self.tier.name(),
            "seed": self.seed,
            "k": self.cur_case,
            "case": case,
            "input_len": input.len(),
            "input_digest": dig,
            "input_hex": hex(if input.len() > (1 << 20) { &input[..1 << 20] } else { input }),
        });
        if !self.replay_mode {
            let _ = std::fs::write(&path, serde_json::to_vec_pretty(&rec).unwrap());
        }
        let short = json!({
            "sub": sub, "signature": signature, "what": what, "replay": path, "k": self.cur_case,
            "input_len": input.len(),
        });
        self.line(&format!("V {}\n", short));
        if self.replay_mode && !self.quiet {
            eprintln!("violation reproduced: {} [{}] {}", sub, signature, what);
        }
    }

    pub fn sample_selftest(&mut self, v: Value) {
        self.selftest = v;
    }

    /// keep up to three examples per kind of noteworthy (non-violating) observation
    pub fn note(&mut self, kind: &str, v: Value) {
        let e = self.notes.entry(kind.to_string()).or_default();
        if e.len() < 3 {
            e.push(v);
        }
    }

    pub fn inconclusive(&mut self, why: &str) {
        self.count(&format!("inconclusive:{}", why));
    }

    pub fn summary(&mut self, extra: Value) {
        let hashes_path = format!("{}.hashes", self.journal_path_hint());
        let mut buf = Vec::with_capacity(self.hashes.len() * 8);
        for h in &self.hashes {
            buf.extend_from_slice(&h.to_le_bytes());
        }
        let _ = std::fs::write(&hashes_path, &buf);
        if self.samples.is_empty() {
            self.samples = self.fallback_samples.clone();
        }
        let s = json!({
            "counters": self.counters,
            "samples": self.samples,
            "hashes_file": hashes_path,
            "distinct_here": self.hashes.len(),
            "extra": extra,
            "selftest": self.selftest,
            "notes": self.notes,
        });
        self.line(&format!("S {}\n", s));
        self.line("D\n");
    }

    fn journal_path_hint(&self) -> String {
        // /proc/self/fd/N -> real path of the journal
        std::fs::read_link(format!("/proc/self/fd/{}", self.journal.as_raw_fd()))
            .map(|p| p.to_string_lossy().to_string())
            .unwrap_or_else(|_| "/dev/null".into())
    }
}

pub fn hex(b: &[u8]) -> String {
    let mut s = String::with_capacity(b.len() * 2);
    for x in b {
        s.push_str(&format!("{:02x}", x));
    }
    s
}

pub fn unhex(s: &str) -> Vec<u8> {
    let b = s.as_bytes();
    (0..b.len() / 2)
        .map(|i| u8::from_str_radix(std::str::from_utf8(&b[2 * i..2 * i + 2]).unwrap(), 16).unwrap())
        .collect()
}

pub fn hex_prefix(b: &[u8], n: usize) -> String {
    if b.len() <= n {
        hex(b)
    } else {
        format!("{}..(+{} bytes)", hex(&b[..n]), b.len() - n)
    }
}

//! Hand-built "pathological but valid" DEFLATE shapes, indexed; all written with the independent
//! bit writer of `gen`.

use crate::gen::*;
use crate::rng::Rng;

pub const N_SHAPES: u64 = 21;

fn one_dynamic_block(r: &mut Rng, w: &mut BitW, toks: &[Tok], last: bool, maxlen: u8, no_rle: bool) {
    let cfg = GenCfg {
        max_plain: 0,
        alphabet: 256,
        match_pct: 0,
        allow_stored: false,
        allow_fixed: false,
        allow_dynamic: true,
        irr258: false,
        padding: false,
        slack: false,
        blocks: 1,
        empty_blocks: false,
        max_code_len: maxlen,
        no_rle,
        code_shape: 0,
    };
    w.put(last as u32, 1);
    w.put(2, 2);
    let (ll, dl) = dynamic_lengths_for(r, toks, &cfg);
    write_dynamic_header(r, w, &ll, &dl, false, no_rle);
    let llc = canon_codes(&ll);
    let dlc = canon_codes(&dl);
    write_tokens(w, toks, &ll, &llc, &dl, &dlc);
}

fn one_fixed_block(w: &mut BitW, toks: &[Tok], last: bool) {
    w.put(last as u32, 1);
    w.put(1, 2);
    let (ll, dl) = fixed_lengths();
    let llc = canon_codes(&ll);
    let dlc = canon_codes(&dl);
    write_tokens(w, toks, &ll, &llc, &dl, &dlc);
}

fn one_stored_block(w: &mut BitW, data: &[u8], last: bool, fill: u32) {
    w.put(last as u32, 1);
    w.put(0, 2);
    w.pad(fill);
    w.put(data.len() as u32, 16);
    w.put(!(data.len() as u32) & 0xffff, 16);
    for &b in data {
        w.put(b as u32, 8);
    }
}

fn apply(plain: &mut Vec<u8>, toks: &[Tok]) {
    for t in toks {
        match *t {
            Tok::Lit(b) => plain.push(b),
            Tok::Ref { len, dist, .. } => {
                for _ in 0..len {
                    let b = plain[plain.len() - dist as usize];
                    plain.push(b);
                }
            }
        }
    }
}

/// returns (name, stream bytes, plaintext)
pub fn shape(idx: u64, r: &mut Rng) -> (String, Vec<u8>, Vec<u8>) {
    let mut w = BitW::new();
    let mut plain = vec![];
    let name;
    match idx % N_SHAPES {
        0 => {
            name = "dyn block with > 65535 copies of one literal";
            let n = 65536 + r.usize_below(3000);
            let b = r.byte();
            let mut toks: Vec<Tok> = vec![Tok::Lit(b); n];
            toks.push(Tok::Lit(b.wrapping_add(1)));
            apply(&mut plain, &toks);
            one_dynamic_block(r, &mut w, &toks, true, 15, false);
        }
        1 => {
            name = "dyn block with > 65535 tokens (mixed)";
            let n = 66000 + r.usize_below(3000);
            let mut toks = vec![];
            for i in 0..n {
                if i > 10 && r.chance(1, 10) {
                    toks.push(Tok::Ref {
                        len: 3 + r.below(6) as u16,
                        dist: 1 + r.below(8) as u16,
                        irr258: false,
                    });
                } else {
                    toks.push(Tok::Lit(97 + r.below(4) as u8));
                }
            }
            apply(&mut plain, &toks);
            one_dynamic_block(r, &mut w, &toks, true, 15, false);
        }
        2 => {
            name = "many empty blocks of all three types around one literal block";
            let n = 2 + r.usize_below(12);
            for _ in 0..n {
                match r.below(3) {
                    0 => one_stored_block(&mut w, &[], false, r.below(256) as u32),
                    1 => one_fixed_block(&mut w, &[], false),
                    _ => {
                        let nr = r.chance(1, 2);
                        one_dynamic_block(r, &mut w, &[], false, 15, nr)
                    }
                }
            }
            let toks: Vec<Tok> = (0..1 + r.usize_below(40)).map(|_| Tok::Lit(r.byte())).collect();
            apply(&mut plain, &toks);
            one_fixed_block(&mut w, &toks, true);
        }
        3 => {
            name = "length-3 match at maximal distance at the very end";
            let pre = r.bytes(32768);
            let mut toks: Vec<Tok> = pre.iter().map(|&b| Tok::Lit(b)).collect();
            toks.push(Tok::Ref {
                len: 3,
                dist: 32768,
                irr258: false,
            });
            apply(&mut plain, &toks);
            if r.chance(1, 2) {
                one_fixed_block(&mut w, &toks, true);
            } else {
                one_dynamic_block(r, &mut w, &toks, true, 15, false);
            }
        }
        4 => {
            name = "all-zero plaintext with far, non-nearest matches";
            let mut toks = vec![Tok::Lit(0); 300];
            let mut pos = 300usize;
            let total = 20000 + r.usize_below(60000);
            while pos < total {
                if r.chance(1, 6) {
                    toks.push(Tok::Lit(0));
                    pos += 1;
                } else {
                    let dist = 1 + r.usize_below(pos.min(32768));
                    let len = 3 + r.usize_below(256);
                    toks.push(Tok::Ref {
                        len: len as u16,
                        dist: dist as u16,
                        irr258: false,
                    });
                    pos += len;
                }
            }
            apply(&mut plain, &toks);
            one_dynamic_block(r, &mut w, &toks, true, 15, false);
        }
        5 => {
            name = "stored block(s) plus literal-only Huffman block(s)";
            let an = 1 + r.usize_below(300);
            let a = r.bytes(an);
            plain.extend_from_slice(&a);
            one_stored_block(&mut w, &a, false, 0);
            let toks: Vec<Tok> = (0..1 + r.usize_below(300)).map(|_| Tok::Lit(97 + r.below(6) as u8)).collect();
            apply(&mut plain, &toks);
            if r.chance(1, 2) {
                one_dynamic_block(r, &mut w, &toks, true, 15, false);
            } else {
                one_fixed_block(&mut w, &toks, true);
            }
        }
        6 => {
            name = "dynamic header without run-length symbols and short codes";
            let toks: Vec<Tok> = (0..200 + r.usize_below(800)).map(|_| Tok::Lit(r.byte())).collect();
            apply(&mut plain, &toks);
            let ml = *r.pick(&[9, 10]);
            one_dynamic_block(r, &mut w, &toks, true, ml, true);
        }
        7 => {
            name = "long matches of 255..258 bytes at short and long distances";
            let seg = r.bytes(300);
            let mut toks: Vec<Tok> = seg.iter().map(|&b| Tok::Lit(b)).collect();
            let mut pos = 300usize;
            for _ in 0..3 + r.usize_below(30) {
                let len = 255 + r.usize_below(4);
                let dist = if r.chance(1, 2) { 300.min(pos) } else { 1 + r.usize_below(pos.min(32768)) };
                toks.push(Tok::Ref {
                    len: len as u16,
                    dist: dist as u16,
                    irr258: false,
                });
                pos += len;
                if r.chance(1, 2) {
                    toks.push(Tok::Lit(r.byte()));
                    pos += 1;
                }
            }
            apply(&mut plain, &toks);
            one_dynamic_block(r, &mut w, &toks, true, 15, false);
        }
        8 => {
            name = "run of one byte coded as overlapping distance-1 matches across 64 KiB";
            let b = r.byte();
            let mut toks = vec![Tok::Lit(b)];
            let mut pos = 1usize;
            let total = 66000 + r.usize_below(70000);
            while pos < total {
                let len = *r.pick(&[258usize, 258, 258, 257, 3, 100]);
                toks.push(Tok::Ref {
                    len: len as u16,
                    dist: 1,
                    irr258: false,
                });
                pos += len;
            }
            apply(&mut plain, &toks);
            one_fixed_block(&mut w, &toks, true);
        }
        9 => {
            name = "text with matches that end exactly at end of input (3..5 bytes left)";
            let wn = 60 + r.usize_below(400);
            let words: Vec<u8> = crate::plain::text(r, wn);
            let mut toks: Vec<Tok> = words.iter().map(|&b| Tok::Lit(b)).collect();
            let pos = words.len();
            let len = 3 + r.usize_below(3);
            let dist = 1 + r.usize_below(pos - 6);
            toks.push(Tok::Ref {
                len: len as u16,
                dist: dist.max(len) as u16,
                irr258: false,
            });
            apply(&mut plain, &toks);
            if r.chance(1, 2) {
                one_fixed_block(&mut w, &toks, true);
            } else {
                one_dynamic_block(r, &mut w, &toks, true, 15, false);
            }
        }
        10 => {
            name = "stored-only stream with maximal and empty blocks";
            let n = 1 + r.usize_below(4);
            for i in 0..n {
                let l = *r.pick(&[0usize, 1, 65535, 65535, 1000]);
                let d = r.bytes(l);
                plain.extend_from_slice(&d);
                one_stored_block(&mut w, &d, i == n - 1, r.below(256) as u32);
            }
        }
        11 => {
            name = "every block type, plaintext > 64 KiB, references across block boundaries";
            let first = crate::plain::text(r, 40000);
            plain.extend_from_slice(&first[..40000.min(first.len())]);
            one_stored_block(&mut w, &plain.clone(), false, 0);
            let mut toks = vec![];
            let mut pos = plain.len();
            for _ in 0..3000 {
                let dist = 1 + r.usize_below(pos.min(32768));
                let len = 3 + r.usize_below(60);
                toks.push(Tok::Ref {
                    len: len as u16,
                    dist: dist as u16,
                    irr258: false,
                });
                pos += len;
            }
            apply(&mut plain, &toks);
            one_dynamic_block(r, &mut w, &toks, false, 15, false);
            let toks2: Vec<Tok> = vec![
                Tok::Ref {
                    len: 258,
                    dist: 32768,
                    irr258: false,
                },
                Tok::Lit(1),
            ];
            apply(&mut plain, &toks2);
            one_fixed_block(&mut w, &toks2, true);
        }
        12 => {
            name = "periodic data coded with exactly-period distances (length 256/257 repeats)";
            let period = 256 + r.usize_below(3);
            let seg = r.bytes(period);
            let mut toks: Vec<Tok> = seg.iter().map(|&b| Tok::Lit(b)).collect();
            for _ in 0..4 + r.usize_below(40) {
                toks.push(Tok::Ref {
                    len: period.min(258) as u16,
                    dist: period as u16,
                    irr258: false,
                });
            }
            apply(&mut plain, &toks);
            one_dynamic_block(r, &mut w, &toks, true, 15, false);
        }
        13 => {
            name = "fixed block using every length code and every distance code once";
            let pre = r.bytes(32768);
            let mut toks: Vec<Tok> = pre.iter().map(|&b| Tok::Lit(b)).collect();
            for i in 0..29 {
                let len = LEN_BASE[i] + if LEN_EXTRA[i] > 0 { r.below(1 << LEN_EXTRA[i]) as u16 } else { 0 };
                let j = r.usize_below(30);
                let dist = DIST_BASE[j] as u32 + if DIST_EXTRA[j] > 0 { r.below(1 << DIST_EXTRA[j]) as u32 } else { 0 };
                toks.push(Tok::Ref {
                    len: len.min(258),
                    dist: dist.min(32768) as u16,
                    irr258: false,
                });
            }
            for j in 0..30 {
                let dist = DIST_BASE[j] as u32 + if DIST_EXTRA[j] > 0 { (1u32 << DIST_EXTRA[j]) - 1 } else { 0 };
                toks.push(Tok::Ref {
                    len: 3 + r.below(10) as u16,
                    dist: dist.min(32768) as u16,
                    irr258: false,
                });
            }
            apply(&mut plain, &toks);
            one_fixed_block(&mut w, &toks, true);
        }
        14 => {
            name = "two-symbol alphabet, lazy-looking alternation of lengths 3 and 4";
            let mut toks = vec![Tok::Lit(b'a'), Tok::Lit(b'b'), Tok::Lit(b'a'), Tok::Lit(b'a'), Tok::Lit(b'b')];
            let mut pos = 5usize;
            for _ in 0..200 + r.usize_below(2000) {
                if r.chance(1, 3) {
                    toks.push(Tok::Lit(*r.pick(b"ab")));
                    pos += 1;
                } else {
                    let len = 3 + r.usize_below(2);
                    let dist = 1 + r.usize_below(pos.min(64));
                    toks.push(Tok::Ref {
                        len: len as u16,
                        dist: dist as u16,
                        irr258: false,
                    });
                    pos += len;
                }
            }
            apply(&mut plain, &toks);
            one_dynamic_block(r, &mut w, &toks, true, 15, false);
        }
        15 => {
            name = "matches at distances 32760..32768 starting around a hash renormalisation mark";
            // marks: plaintext offsets 65024 + k * 32256; a stored preamble up to just before the mark, then a
            // fixed block of short far matches and literals covering the offsets around it
            let mark = 65024 + 32256 * r.usize_below(2);
            let start = mark - 40 - r.usize_below(60);
            let pre = r.bytes(start);
            let mut off = 0;
            while off < pre.len() {
                let l = (pre.len() - off).min(65535);
                one_stored_block(&mut w, &pre[off..off + l], false, 0);
                off += l;
            }
            plain.extend_from_slice(&pre);
            let mut toks = vec![];
            let mut pos = start;
            while pos < mark + 80 {
                if r.chance(1, 3) {
                    toks.push(Tok::Lit(r.byte()));
                    pos += 1;
                } else {
                    let len = 3 + r.usize_below(8);
                    toks.push(Tok::Ref {
                        len: len as u16,
                        dist: (32768 - r.usize_below(9)) as u16,
                        irr258: false,
                    });
                    pos += len;
                }
            }
            apply(&mut plain, &toks);
            one_fixed_block(&mut w, &toks, true);
        }
        16 => {
            name = "reference whose target lies about 4096 entries deep in its hash chain";
            // one distinctive record, then n records sharing its first four bytes, then a long match back
            // to the first: the measured chain depth is n (the header carries it in 16 bits; tables stop at 4096)
            // the list is walked systematically by the shape index, so that 190 consecutive indices meet every value
            let depths = [4090usize, 4093, 4094, 4095, 4096, 4097, 2047, 2048, 1023, 1024];
            let n = depths[((idx / N_SHAPES) % depths.len() as u64) as usize];
            let head = *b"abcd";
            let mut toks = vec![];
            let first: Vec<u8> = (0..12).map(|_| b'A' + r.below(26) as u8).collect();
            for &b in head.iter().chain(first.iter()) {
                toks.push(Tok::Lit(b));
            }
            for i in 0..n {
                for &b in head.iter() {
                    toks.push(Tok::Lit(b));
                }
                // three bytes that make every record unique and different from `first`
                toks.push(Tok::Lit(b'a' + (i % 17) as u8));
                toks.push(Tok::Lit(b'a' + ((i / 17) % 17) as u8));
                toks.push(Tok::Lit(b'a' + ((i / 289) % 17) as u8));
            }
            let dist = 7 * n + 16;
            if dist <= 32768 {
                toks.push(Tok::Ref {
                    len: 16,
                    dist: dist as u16,
                    irr258: false,
                });
            }
            toks.push(Tok::Lit(b'!'));
            apply(&mut plain, &toks);
            if r.chance(1, 2) {
                one_fixed_block(&mut w, &toks, true);
            } else {
                one_dynamic_block(r, &mut w, &toks, true, 15, false);
            }
        }
        17 => {
            name = "literal/length code with 256 or 257 symbols of one length and longer codes in use";
            // 256 literals of length 9 fill half of the code space; 256..262 take lengths 2..8; the rest is
            // shared by length symbols with codes longer than 9 (count 256), or one more 9 and two 10s (257)
            let mut ll = vec![0u8; 286];
            for l in ll.iter_mut().take(256) {
                *l = 9;
            }
            for (i, l) in (2u8..=8).enumerate() {
                ll[256 + i] = l;
            }
            let mut deep: Vec<usize>;
            if (idx / N_SHAPES) % 2 == 0 {
                ll[263] = 10;
                ll[264] = 10;
                ll[265] = 10;
                ll[266] = 10;
                deep = vec![263, 264, 265, 266];
            } else {
                ll[263] = 10;
                ll[264] = 10;
                ll[265] = 9;
                deep = vec![263, 264, 265];
            }
            // optionally push one of the length-10 symbols deeper: 10 -> 11, 12, .., d, d (still complete)
            if r.chance(1, 2) {
                let d = 11 + r.below(5) as u8;
                let mut lens: Vec<u8> = (11..d).collect();
                lens.push(d);
                lens.push(d);
                let mut slot = 264usize;
                for l in lens {
                    ll[slot] = l;
                    if slot != 264 {
                        deep.push(slot);
                    }
                    slot = if slot == 264 { 267 } else { slot + 1 };
                }
            }
            let mut dl = vec![0u8; 30];
            for l in dl.iter_mut().take(4) {
                *l = 2;
            }
            let mut toks: Vec<Tok> = (0..8).map(|_| Tok::Lit(r.byte())).collect();
            for _ in 0..200 + r.usize_below(600) {
                if r.chance(1, 3) {
                    // a length whose symbol is one of the long codes
                    let sym = *r.pick(&deep);
                    let i = sym - 257;
                    let len = LEN_BASE[i] + if LEN_EXTRA[i] > 0 { r.below(1 << LEN_EXTRA[i]) as u16 } else { 0 };
                    toks.push(Tok::Ref {
                        len,
                        dist: 1 + r.below(4) as u16,
                        irr258: false,
                    });
                } else {
                    toks.push(Tok::Lit(r.byte()));
                }
            }
            apply(&mut plain, &toks);
            w.put(1, 1);
            w.put(2, 2);
            let nr = r.chance(1, 3);
            write_dynamic_header(r, &mut w, &ll, &dl, false, nr);
            let llc = canon_codes(&ll);
            let dlc = canon_codes(&dl);
            write_tokens(&mut w, &toks, &ll, &llc, &dl, &dlc);
        }
        18 => {
            // block counts beyond what 8-bit (and, one time in four, 16-bit) counters hold
            let many = (idx / N_SHAPES) % 4 == 3;
            name = if many { "more than 65536 blocks, most of them empty stored blocks" } else { "several hundred small blocks of all three types" };
            let n = if many { 65537 + r.usize_below(500) } else { 250 + r.usize_below(450) };
            for i in 0..n {
                if many && i % 97 != 0 {
                    one_stored_block(&mut w, &[], false, 0);
                    continue;
                }
                match r.below(3) {
                    0 => {
                        let l = r.usize_below(6);
                        let d = r.bytes(l);
                        plain.extend_from_slice(&d);
                        one_stored_block(&mut w, &d, false, r.below(256) as u32);
                    }
                    1 => {
                        let toks: Vec<Tok> = (0..1 + r.usize_below(4)).map(|_| Tok::Lit(97 + r.below(4) as u8)).collect();
                        apply(&mut plain, &toks);
                        one_fixed_block(&mut w, &toks, false);
                    }
                    _ => {
                        let toks: Vec<Tok> = (0..1 + r.usize_below(6)).map(|_| Tok::Lit(97 + r.below(4) as u8)).collect();
                        apply(&mut plain, &toks);
                        let nr = r.chance(1, 2);
                        one_dynamic_block(r, &mut w, &toks, false, 15, nr);
                    }
                }
            }
            let toks = vec![Tok::Lit(r.byte())];
            apply(&mut plain, &toks);
            one_fixed_block(&mut w, &toks, true);
        }
        19 => {
            name = "stored block whose LEN/NLEN field lies across a multiple of 64 KiB of the stream";
            // one or two stored blocks in front, sized so that the length fields of the next stored block start at
            // stream offsets 65530..65539 (or 64 KiB later): buffered readers refill exactly there
            let v = ((idx / N_SHAPES) % 10) as usize;
            let far = (idx / N_SHAPES / 10) % 2 == 1;
            if far {
                let d = r.bytes(65531);
                plain.extend_from_slice(&d);
                one_stored_block(&mut w, &d, false, 0);
            }
            let d = r.bytes(65524 + v);
            plain.extend_from_slice(&d);
            one_stored_block(&mut w, &d, false, 0);
            let l = 1 + r.usize_below(300);
            let d = r.bytes(l);
            plain.extend_from_slice(&d);
            let last = r.chance(1, 2);
            one_stored_block(&mut w, &d, last, r.below(256) as u32);
            if !last {
                let toks: Vec<Tok> = (0..1 + r.usize_below(40)).map(|_| Tok::Lit(r.byte())).collect();
                apply(&mut plain, &toks);
                one_fixed_block(&mut w, &toks, true);
            }
        }
        _ => {
            name = "single-literal and empty final blocks with every padding";
            let toks = vec![Tok::Lit(r.byte())];
            apply(&mut plain, &toks);
            one_fixed_block(&mut w, &toks, false);
            one_stored_block(&mut w, &[], true, r.below(256) as u32);
        }
    }
    let fill = if r.chance(1, 3) { r.below(256) as u32 } else { 0 };
    w.pad(fill);
    (name.to_string(), w.out, plain)
}

//! Independent reader of the expanded-container format (written from the format description, not
//! from the library's reader) and a substring search.

#[derive(Debug, Clone)]
pub struct Chunk {
    /// 0 literal, 1 deflate stream, 2 PNG IDAT run
    pub kind: u8,
    /// literal payload, or plaintext of the stream
    pub data: (usize, usize),
    /// correction bytes (kinds 1, 2)
    pub corr: (usize, usize),
    pub idat_sizes: Vec<u32>,
    /// byte offset of the chunk's tag in the container
    pub at: usize,
}

pub struct Parsed {
    pub version: u8,
    pub chunks: Vec<Chunk>,
}

struct Cur<'a> {
    b: &'a [u8],
    p: usize,
}

impl<'a> Cur<'a> {
    fn byte(&mut self) -> Result<u8, String> {
        let v = *self.b.get(self.p).ok_or_else(|| format!("unexpected end at {}", self.p))?;
        self.p += 1;
        Ok(v)
    }
    fn varint(&mut self) -> Result<u32, String> {
        let mut r: u64 = 0;
        let mut shift = 0;
        loop {
            let b = self.byte()?;
            r |= ((b & 0x7f) as u64) << shift;
            shift += 7;
            if b & 0x80 == 0 {
                break;
            }
            if shift > 35 {
                return Err(format!("varint too long at {}", self.p));
            }
        }
        Ok(r as u32)
    }
    fn span(&mut self, n: usize) -> Result<(usize, usize), String> {
        if self.p + n > self.b.len() {
            return Err(format!("payload of {} bytes at {} runs past the end ({})", n, self.p, self.b.len()));
        }
        let s = (self.p, self.p + n);
        self.p += n;
        Ok(s)
    }
}

pub fn parse(container: &[u8]) -> Result<Parsed, String> {
    let mut c = Cur { b: container, p: 0 };
    let version = c.byte()?;
    let mut chunks = vec![];
    while c.p < container.len() {
        let at = c.p;
        let tag = c.byte()?;
        match tag {
            0 => {
                let n = c.varint()? as usize;
                let data = c.span(n)?;
                chunks.push(Chunk {
                    kind: 0,
                    data,
                    corr: (0, 0),
                    idat_sizes: vec![],
                    at,
                });
            }
            1 | 2 => {
                let mut idat_sizes = vec![];
                if tag == 2 {
                    loop {
                        let v = c.varint()?;
                        if v == 0 {
                            break;
                        }
                        idat_sizes.push(v);
                    }
                    c.span(2)?;
                    c.span(4)?;
                }
                let n = c.varint()? as usize;
                let data = c.span(n)?;
                let m = c.varint()? as usize;
                let corr = c.span(m)?;
                chunks.push(Chunk {
                    kind: tag,
                    data,
                    corr,
                    idat_sizes,
                    at,
                });
            }
            t => return Err(format!("unknown chunk tag {} at {}", t, at)),
        }
    }
    Ok(Parsed { version, chunks })
}

/// Knuth-Morris-Pratt substring search (worst case linear, needed for repetitive plaintexts)
pub fn find(hay: &[u8], needle: &[u8]) -> Option<usize> {
    if needle.is_empty() {
        return Some(0);
    }
    if needle.len() > hay.len() {
        return None;
    }
    let mut fail = vec![0usize; needle.len()];
    let mut k = 0;
    for i in 1..needle.len() {
        while k > 0 && needle[i] != needle[k] {
            k = fail[k - 1];
        }
        if needle[i] == needle[k] {
            k += 1;
        }
        fail[i] = k;
    }
    k = 0;
    for (i, &b) in hay.iter().enumerate() {
        while k > 0 && b != needle[k] {
            k = fail[k - 1];
        }
        if b == needle[k] {
            k += 1;
        }
        if k == needle.len() {
            return Some(i + 1 - k);
        }
    }
    None
}

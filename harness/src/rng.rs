//! xoshiro256** seeded through splitmix64; every random choice of the harness comes from here
//! so that a case is a pure function of (VERIF_SEED, property, tier, case index).

#[derive(Clone)]
pub struct Rng {
    s: [u64; 4],
}

fn splitmix(x: &mut u64) -> u64 {
    *x = x.wrapping_add(0x9E3779B97F4A7C15);
    let mut z = *x;
    z = (z ^ (z >> 30)).wrapping_mul(0xBF58476D1CE4E5B9);
    z = (z ^ (z >> 27)).wrapping_mul(0x94D049BB133111EB);
    z ^ (z >> 31)
}

impl Rng {
    pub fn new(seed: u64) -> Rng {
        let mut x = seed;
        Rng {
            s: [
                splitmix(&mut x),
                splitmix(&mut x),
                splitmix(&mut x),
                splitmix(&mut x),
            ],
        }
    }
    /// independent stream for (seed, a, b, c)
    pub fn derive(seed: u64, a: u64, b: u64, c: u64) -> Rng {
        let mut x = seed ^ 0x5851F42D4C957F2D;
        let mut h = splitmix(&mut x);
        for v in [a, b, c] {
            x = h ^ v.wrapping_mul(0x9E3779B97F4A7C15);
            h = splitmix(&mut x);
        }
        Rng::new(h)
    }
    pub fn next(&mut self) -> u64 {
        let r = self.s[1].wrapping_mul(5).rotate_left(7).wrapping_mul(9);
        let t = self.s[1] << 17;
        self.s[2] ^= self.s[0];
        self.s[3] ^= self.s[1];
        self.s[1] ^= self.s[2];
        self.s[0] ^= self.s[3];
        self.s[2] ^= t;
        self.s[3] = self.s[3].rotate_left(45);
        r
    }
    pub fn below(&mut self, n: u64) -> u64 {
        if n == 0 {
            0
        } else {
            self.next() % n
        }
    }
    pub fn usize_below(&mut self, n: usize) -> usize {
        self.below(n as u64) as usize
    }
    /// inclusive range
    pub fn range(&mut self, lo: u64, hi: u64) -> u64 {
        lo + self.below(hi - lo + 1)
    }
    pub fn chance(&mut self, num: u64, den: u64) -> bool {
        self.below(den) < num
    }
    pub fn pick<'a, T>(&mut self, v: &'a [T]) -> &'a T {
        &v[self.usize_below(v.len())]
    }
    pub fn byte(&mut self) -> u8 {
        self.next() as u8
    }
    pub fn bytes(&mut self, n: usize) -> Vec<u8> {
        let mut v = Vec::with_capacity(n);
        while v.len() + 8 <= n {
            v.extend_from_slice(&self.next().to_le_bytes());
        }
        while v.len() < n {
            v.push(self.byte());
        }
        v
    }
}

/// 64-bit content hash (FNV-1a with an avalanche finish); used for distinct-case counting
pub fn hash64(data: &[u8]) -> u64 {
    hash64_seeded(data, 0xcbf29ce484222325)
}

pub fn hash64_seeded(data: &[u8], seed: u64) -> u64 {
    let mut h = seed;
    let mut chunks = data.chunks_exact(8);
    for c in &mut chunks {
        let v = u64::from_le_bytes(c.try_into().unwrap());
        h = (h ^ v).wrapping_mul(0x100000001b3).rotate_left(23);
    }
    for &b in chunks.remainder() {
        h = (h ^ b as u64).wrapping_mul(0x100000001b3);
    }
    h ^= data.len() as u64;
    h = (h ^ (h >> 33)).wrapping_mul(0xff51afd7ed558ccd);
    h = (h ^ (h >> 33)).wrapping_mul(0xc4ceb9fe1a85ec53);
    h ^ (h >> 33)
}

/// 128-bit hex digest used in signatures and replay file names
pub fn digest_hex(data: &[u8]) -> String {
    format!(
        "{:016x}{:016x}",
        hash64_seeded(data, 0xcbf29ce484222325),
        hash64_seeded(data, 0x84222325cbf29ce4)
    )
}

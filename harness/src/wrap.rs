//! Wrappers (zlib, gzip, ZIP local header, PNG IDAT), junk of two flavours, and the file assembler.

use crate::comp::adler32;
use crate::rng::Rng;
use crate::streams::{self, Stream};

pub const ZLIB_HEADERS: [u8; 4] = [0x01, 0x5E, 0x9C, 0xDA];

/// PNG wrappers may carry arbitrary bytes in place of the zlib header (the library stores them verbatim);
/// switched off by the C06 monitor, whose statement only speaks about well-formed embeddings
pub static ODD_PNG_HEADERS: std::sync::atomic::AtomicBool = std::sync::atomic::AtomicBool::new(true);

pub fn crc32(data: &[u8]) -> u32 {
    crc32fast::hash(data)
}

pub fn zlib_wrap(stream: &[u8], plain: &[u8], flg: u8) -> Vec<u8> {
    let mut v = vec![0x78, flg];
    v.extend_from_slice(stream);
    v.extend_from_slice(&adler32(plain).to_be_bytes());
    v
}

/// flags: bit0 FEXTRA, bit1 FNAME, bit2 FCOMMENT, bit3 FHCRC (our own numbering)
pub fn gzip_wrap(r: &mut Rng, stream: &[u8], plain: &[u8], subset: u8, hostile_fields: bool) -> Vec<u8> {
    let mut flg = 0u8;
    if subset & 1 != 0 {
        flg |= 0x04;
    }
    if subset & 2 != 0 {
        flg |= 0x08;
    }
    if subset & 4 != 0 {
        flg |= 0x10;
    }
    if subset & 8 != 0 {
        flg |= 0x02;
    }
    let mut v = vec![0x1f, 0x8b, 8, flg];
    v.extend_from_slice(&(r.next() as u32).to_le_bytes()); // mtime
    v.push(*r.pick(&[0u8, 2, 4]));
    v.push(*r.pick(&[0u8, 3, 255]));
    let field = |r: &mut Rng, n: usize, zero_free: bool| -> Vec<u8> {
        let mut f = if hostile_fields {
            let mut f = r.bytes(n);
            // sprinkle signature look-alikes into the field
            for _ in 0..1 + n / 16 {
                if f.len() >= 2 {
                    let i = r.usize_below(f.len() - 1);
                    let sig = *r.pick(&[[0x78u8, 0x9C], [0x50, 0x4B], [0x1F, 0x8B], [0x49, 0x44], [0x78, 0x01]]);
                    f[i] = sig[0];
                    f[i + 1] = sig[1];
                }
            }
            f
        } else {
            (0..n).map(|_| b'a' + r.below(26) as u8).collect()
        };
        if zero_free {
            for x in f.iter_mut() {
                if *x == 0 {
                    *x = 1;
                }
            }
        }
        f
    };
    if subset & 1 != 0 {
        let n = *r.pick(&[0usize, 1, 4, 20, 300, 70000]);
        let n = if n == 70000 {
            if r.chance(1, 5) {
                65535 // the largest FEXTRA the 16-bit length field can announce
            } else {
                256 + r.usize_below(2000)
            }
        } else {
            n
        };
        let f = field(r, n, false);
        v.extend_from_slice(&(f.len() as u16).to_le_bytes());
        v.extend_from_slice(&f);
    }
    // the two zero-terminated strings have no length limit in RFC 1952: mostly short, sometimes a few KiB,
    // rarely more than 64 KiB
    let strlen = |r: &mut Rng, short: usize| -> usize {
        match r.below(16) {
            0 => 1000 + r.usize_below(200),
            1 => 1024 + r.usize_below(8000),
            2 if r.chance(1, 3) => 65536 + r.usize_below(5000),
            _ => r.usize_below(short),
        }
    };
    if subset & 2 != 0 {
        let n = strlen(r, 40);
        v.extend_from_slice(&field(r, n, true));
        v.push(0);
    }
    if subset & 4 != 0 {
        let n = strlen(r, 80);
        v.extend_from_slice(&field(r, n, true));
        v.push(0);
    }
    if subset & 8 != 0 {
        let c = crc32(&v) as u16;
        v.extend_from_slice(&c.to_le_bytes());
    }
    v.extend_from_slice(stream);
    v.extend_from_slice(&crc32(plain).to_le_bytes());
    v.extend_from_slice(&(plain.len() as u32).to_le_bytes());
    v
}

pub struct ZipOpts {
    /// how the size fields of the local header are filled: 0 exact, 1 ZIP64 (0xFFFFFFFF + extended
    /// information extra field), 2 garbage, 3 zero without data descriptor
    pub size_mode: u8,
    pub name_len: usize,
    pub extra_len: usize,
    pub data_descriptor: bool,
    pub central_dir: bool,
    pub hostile_fields: bool,
}

pub fn zip_wrap(r: &mut Rng, stream: &[u8], plain: &[u8], o: &ZipOpts) -> Vec<u8> {
    let mut v = vec![0x50, 0x4b, 0x03, 0x04];
    let zip64 = o.size_mode == 1;
    v.extend_from_slice(&(if zip64 { 45u16 } else { 20u16 }).to_le_bytes());
    let flags: u16 = if o.data_descriptor { 0x0008 } else { 0 };
    v.extend_from_slice(&flags.to_le_bytes());
    v.extend_from_slice(&8u16.to_le_bytes());
    v.extend_from_slice(&(r.next() as u16).to_le_bytes());
    v.extend_from_slice(&(r.next() as u16).to_le_bytes());
    let crc = crc32(plain);
    if o.data_descriptor {
        v.extend_from_slice(&[0; 12]);
    } else {
        v.extend_from_slice(&crc.to_le_bytes());
        match o.size_mode {
            1 => v.extend_from_slice(&[0xff; 8]),
            2 => {
                v.extend_from_slice(&(r.next() as u32).to_le_bytes());
                v.extend_from_slice(&(r.next() as u32).to_le_bytes());
            }
            3 => v.extend_from_slice(&[0; 8]),
            _ => {
                v.extend_from_slice(&(stream.len() as u32).to_le_bytes());
                v.extend_from_slice(&(plain.len() as u32).to_le_bytes());
            }
        }
    }
    // ZIP64 extended information: id 0x0001, size 16, uncompressed and compressed size as u64
    let mut extra: Vec<u8> = vec![];
    if zip64 {
        extra.extend_from_slice(&[0x01, 0x00, 16, 0]);
        extra.extend_from_slice(&(plain.len() as u64).to_le_bytes());
        extra.extend_from_slice(&(stream.len() as u64).to_le_bytes());
    }
    let fill = o.extra_len.saturating_sub(extra.len());
    extra.extend(r.bytes(fill));
    v.extend_from_slice(&(o.name_len as u16).to_le_bytes());
    v.extend_from_slice(&(extra.len() as u16).to_le_bytes());
    let name: Vec<u8> = if o.hostile_fields {
        r.bytes(o.name_len)
    } else {
        (0..o.name_len).map(|_| b'a' + r.below(26) as u8).collect()
    };
    v.extend_from_slice(&name);
    v.extend_from_slice(&extra);
    v.extend_from_slice(stream);
    if o.data_descriptor {
        if r.chance(1, 2) {
            v.extend_from_slice(&[0x50, 0x4b, 0x07, 0x08]);
        }
        v.extend_from_slice(&crc.to_le_bytes());
        v.extend_from_slice(&(stream.len() as u32).to_le_bytes());
        v.extend_from_slice(&(plain.len() as u32).to_le_bytes());
    }
    if o.central_dir {
        // central directory look-alike (method 8 too, but no data behind it) and end record
        v.extend_from_slice(&[0x50, 0x4b, 0x01, 0x02, 20, 0, 20, 0]);
        v.extend_from_slice(&flags.to_le_bytes());
        v.extend_from_slice(&8u16.to_le_bytes());
        v.extend_from_slice(&[0; 4]);
        v.extend_from_slice(&crc.to_le_bytes());
        v.extend_from_slice(&(stream.len() as u32).to_le_bytes());
        v.extend_from_slice(&(plain.len() as u32).to_le_bytes());
        v.extend_from_slice(&(o.name_len as u16).to_le_bytes());
        v.extend_from_slice(&[0; 16]);
        v.extend_from_slice(&name);
        v.extend_from_slice(&[0x50, 0x4b, 0x05, 0x06, 0, 0, 0, 0, 1, 0, 1, 0]);
        v.extend_from_slice(&[0; 10]);
    }
    v
}

pub fn png_chunk(kind: &[u8; 4], data: &[u8]) -> Vec<u8> {
    let mut v = Vec::with_capacity(data.len() + 12);
    v.extend_from_slice(&(data.len() as u32).to_be_bytes());
    v.extend_from_slice(kind);
    v.extend_from_slice(data);
    let mut h = crc32fast::Hasher::new();
    h.update(kind);
    h.update(data);
    v.extend_from_slice(&h.finalize().to_be_bytes());
    v
}

/// PNG around a zlib stream cut into IDAT chunks at the given offsets (offsets into the zlib bytes)
pub fn png_wrap(r: &mut Rng, zlib_bytes: &[u8], cuts: &[usize], with_envelope: bool, tail: &[u8]) -> Vec<u8> {
    let mut v = vec![];
    if with_envelope {
        v.extend_from_slice(&[0x89, b'P', b'N', b'G', 0x0d, 0x0a, 0x1a, 0x0a]);
        let mut ihdr = vec![];
        ihdr.extend_from_slice(&(1 + r.below(2000) as u32).to_be_bytes());
        ihdr.extend_from_slice(&(1 + r.below(2000) as u32).to_be_bytes());
        ihdr.extend_from_slice(&[8, 2, 0, 0, 0]);
        v.extend(png_chunk(b"IHDR", &ihdr));
    }
    let mut prev = 0;
    for &c in cuts.iter().chain(std::iter::once(&zlib_bytes.len())) {
        let c = c.min(zlib_bytes.len()).max(prev);
        v.extend(png_chunk(b"IDAT", &zlib_bytes[prev..c]));
        prev = c;
    }
    if with_envelope {
        v.extend(png_chunk(b"IEND", &[]));
    }
    v.extend_from_slice(tail);
    v
}

pub fn random_cuts(r: &mut Rng, total: usize, n_chunks: usize, allow_empty: bool) -> Vec<usize> {
    let mut cuts: Vec<usize> = (0..n_chunks.saturating_sub(1))
        .map(|_| if total == 0 { 0 } else { r.usize_below(total + 1) })
        .collect();
    // chunk boundaries inside the 2-byte zlib header or the 4-byte adler32 (first chunk of 1 byte, last
    // chunk of 1-3 bytes, ...) are legal PNG and deserve more than their uniform share
    if total > 8 && n_chunks > 1 && r.chance(1, 3) {
        let k = r.usize_below(cuts.len());
        cuts[k] = *r.pick(&[1usize, 2, 3, total - 1, total - 2, total - 3, total - 4, total - 5]);
    }
    cuts.sort();
    if !allow_empty {
        cuts.dedup();
        cuts.retain(|&c| c > 0 && c < total);
    }
    cuts
}

/// bytes that cannot take part in any two-byte signature of the scanner
pub fn junk_clean(r: &mut Rng, n: usize) -> Vec<u8> {
    const BAD: [u8; 11] = [0x78, 0x50, 0x1F, 0x49, 0x01, 0x5E, 0x9C, 0xDA, 0x4B, 0x8B, 0x44];
    (0..n)
        .map(|_| loop {
            let b = r.byte();
            if !BAD.contains(&b) {
                break b;
            }
        })
        .collect()
}

/// look-alikes: signatures followed by noise, truncated headers, small real streams below the
/// scanner's size threshold
pub fn junk_hostile(r: &mut Rng, n: usize) -> Vec<u8> {
    let mut v = Vec::with_capacity(n + 64);
    while v.len() < n {
        match r.below(9) {
            0 => {
                v.extend_from_slice(&[0x78, *r.pick(&ZLIB_HEADERS)]);
                let k = r.usize_below(40);
                v.extend(r.bytes(k));
            }
            1 => {
                v.extend_from_slice(&[0x50, 0x4b, 0x03, 0x04]);
                let k = r.usize_below(34);
                v.extend(r.bytes(k));
            }
            2 => {
                v.extend_from_slice(&[0x1f, 0x8b, 0x08, r.below(32) as u8]);
                let k = r.usize_below(30);
                v.extend(r.bytes(k));
            }
            3 => {
                // IDAT with bad length / CRC
                let l = match r.below(8) {
                    0 | 1 => 0,
                    2 => r.next() as u32,
                    3 => 1000 + r.below(100_000) as u32,
                    _ => r.below(70) as u32,
                };
                v.extend_from_slice(&l.to_be_bytes());
                v.extend_from_slice(b"IDAT");
                let k = r.usize_below(80);
                v.extend(r.bytes(k));
            }
            4 => {
                // well-formed tiny IDAT chunk
                let k = r.usize_below(12);
                let d = r.bytes(k);
                v.extend(png_chunk(b"IDAT", &d));
            }
            5 => {
                // a real but small zlib stream (below the 1024-byte plaintext threshold)
                let n = r.usize_below(900);
                let p = crate::plain::text(r, n);
                if let Some(d) = crate::comp::zlib_raw(&p, 6, 0, 15, 8, &[]) {
                    v.extend(zlib_wrap(&d, &p, 0x9C));
                }
            }
            6 => {
                // zip local header with method 0 (stored) or a wrong method
                let o = ZipOpts {
                    size_mode: 0,
                    name_len: r.usize_below(12),
                    extra_len: r.usize_below(12),
                    data_descriptor: false,
                    central_dir: false,
                    hostile_fields: false,
                };
                let k = r.usize_below(60);
                let p = r.bytes(k);
                let mut z = zip_wrap(r, &p, &p, &o);
                z[8] = *r.pick(&[0u8, 9, 12]);
                v.extend(z);
            }
            7 => v.extend_from_slice(b"PKIDPK\x1f\x8bx\x9cx\x01IDATID"),
            _ => {
                let k = 1 + r.usize_below(64);
                v.extend(r.bytes(k));
            }
        }
    }
    v.truncate(n);
    v
}

pub fn junk(r: &mut Rng, n: usize, hostile: bool) -> Vec<u8> {
    if hostile {
        junk_hostile(r, n)
    } else {
        junk_clean(r, n)
    }
}

#[derive(Clone, Debug)]
pub struct Embedded {
    /// 0 zlib, 1 gzip, 2 zip, 3 png
    pub wrapper: u8,
    pub variant: String,
    /// offset of the wrapper's first byte in the file
    pub start: usize,
    /// offset of the raw stream's first byte (for PNG: of the first IDAT chunk's length field)
    pub stream_start: usize,
    /// length of the span the scanner should take for this stream: the raw stream for
    /// zlib/gzip/zip, the whole run of IDAT chunks for PNG
    pub span_len: usize,
    pub plain: Vec<u8>,
    pub source: usize,
}

pub const WRAPPER_NAMES: [&str; 4] = ["zlib", "gzip", "zip", "png"];

/// wrap `s` with wrapper kind `w`; returns (bytes, offset of stream in bytes, span length, variant text)
pub fn wrap_stream(r: &mut Rng, s: &Stream, w: u8, hostile_fields: bool) -> (Vec<u8>, usize, usize, String) {
    match w {
        0 => {
            let flg = *r.pick(&ZLIB_HEADERS);
            (zlib_wrap(&s.bytes, &s.plain, flg), 2, s.bytes.len(), format!("zlib 78 {:02X}", flg))
        }
        1 => {
            let subset = r.below(16) as u8;
            let v = gzip_wrap(r, &s.bytes, &s.plain, subset, hostile_fields);
            let off = v.len() - 8 - s.bytes.len();
            (v, off, s.bytes.len(), format!("gzip fields={:04b}", subset))
        }
        2 => {
            let o = ZipOpts {
                size_mode: *r.pick(&[0u8, 0, 0, 1, 2, 3]),
                // 65535: the largest value of the 16-bit length fields
                name_len: if r.chance(1, 30) { 65535 } else { *r.pick(&[0usize, 1, 8, 30, 300]) },
                extra_len: if r.chance(1, 30) { 65535 } else { *r.pick(&[0usize, 0, 4, 28, 300]) },
                data_descriptor: r.chance(1, 3),
                central_dir: r.chance(1, 2),
                hostile_fields,
            };
            let v = zip_wrap(r, &s.bytes, &s.plain, &o);
            let extra_len = u16::from_le_bytes([v[28], v[29]]) as usize;
            let off = 30 + o.name_len + extra_len;
            (
                v,
                off,
                s.bytes.len(),
                format!(
                    "zip sizes={} name={} extra={} dd={} cd={}",
                    ["exact", "zip64", "garbage", "zero"][o.size_mode as usize],
                    o.name_len,
                    extra_len,
                    o.data_descriptor,
                    o.central_dir
                ),
            )
        }
        _ => {
            let flg = *r.pick(&ZLIB_HEADERS);
            let mut z = zlib_wrap(&s.bytes, &s.plain, flg);
            // the scanner stores the two header bytes verbatim and never interprets them: any value must do
            let odd_header = r.chance(1, 6) && ODD_PNG_HEADERS.load(std::sync::atomic::Ordering::Relaxed);
            if odd_header {
                z[0] = *r.pick(&[0x78u8, 0x79, 0x00, 0x08, 0xff]);
                z[1] = r.byte();
            }
            // rarely more IDAT chunks than an 8-bit counter holds
            let n_chunks = if r.chance(1, 40) { 256 + r.usize_below(150) } else { *r.pick(&[1usize, 1, 2, 3, 8]) };
            let cuts = random_cuts(r, z.len(), n_chunks, false);
            let envelope = r.chance(3, 4);
            let v = png_wrap(r, &z, &cuts, envelope, &[]);
            let off = if envelope { 8 + 25 } else { 0 };
            let span = z.len() + 12 * (cuts.len() + 1);
            (v, off, span, format!("png idat_chunks={} envelope={} hdr={:02X}{:02X}", cuts.len() + 1, envelope, z[0], z[1]))
        }
    }
}

pub struct GenFile {
    pub bytes: Vec<u8>,
    pub recipe: String,
    pub embedded: Vec<Embedded>,
}

/// a file with 0..6 embedded streams separated by junk, then optionally mutated
pub fn assemble(r: &mut Rng, max_plain: usize, max_streams: usize) -> GenFile {
    let mut n = match r.below(10) {
        0 => 0,
        1..=5 => 1,
        6..=7 => 2,
        _ => 1 + r.usize_below(max_streams.max(1)),
    };
    // rarely more embedded streams than an 8-bit counter holds (all of them tiny)
    let crowd = max_streams >= 3 && r.chance(1, 60);
    let max_plain = if crowd { 300 } else { max_plain };
    if crowd {
        n = 256 + r.usize_below(60);
    }
    let hostile = r.chance(1, 2);
    let mut bytes = vec![];
    let mut recipe = format!("junk={} ", if hostile { "hostile" } else { "clean" });
    let mut embedded = vec![];
    let pre = *r.pick(&[0usize, 0, 3, 40, 700, 4096]);
    let mut pre = r.usize_below(pre + 1);
    // directed alignments: the first wrapper (or, without one, the end of the file) lands on or next to a
    // multiple of 64 KiB, the granularity of the scanner's and the container's copy buffers
    let aligned = r.chance(1, 8);
    if aligned {
        let k = 1 + r.usize_below(2);
        pre = k * 65536 + 2 - r.usize_below(11);
        recipe.push_str(&format!("pre={} ", pre));
    }
    bytes.extend(junk(r, pre, hostile));
    for _ in 0..n {
        let s = if max_plain >= 16000 && r.chance(1, 20) {
            // one of the hand-built pathological-but-valid shapes (chain depth around 4096, maximal
            // distances, > 65535 tokens or copies of one symbol in a block, ...), checked by zlib's inflate
            let idx = r.next();
            let (name, d, p) = crate::special::shape(idx, r);
            match crate::comp::zlib_inflate_raw(&d, p.len() + 1024) {
                Some((pp, used)) if pp == p && used == d.len() => Stream {
                    source: 4,
                    recipe: format!("shape: {}", name),
                    bytes: d,
                    plain: p,
                },
                _ => continue,
            }
        } else {
            match streams::any_stream(r, max_plain, 3) {
                Some(s) => s,
                None => continue,
            }
        };
        let w = r.below(4) as u8;
        if w == 3 && bytes.len() < 4 {
            // an IDAT run needs 4 bytes in front of it to be found at all
            bytes.extend(junk_clean(r, 4));
        }
        let (wb, off, span, variant) = wrap_stream(r, &s, w, hostile);
        recipe.push_str(&format!("[{} <- {}:{}B plain {}B] ", variant, streams::SOURCE_NAMES[s.source], s.bytes.len(), s.plain.len()));
        embedded.push(Embedded {
            wrapper: w,
            variant,
            start: bytes.len(),
            stream_start: bytes.len() + off,
            span_len: span,
            plain: s.plain.clone(),
            source: s.source,
        });
        bytes.extend(wb);
        let gap = *r.pick(&[0usize, 0, 1, 9, 100, 2000]);
        let mut gap = r.usize_below(gap + 1);
        if !crowd && r.chance(1, 12) {
            // the literal run behind a stream (trailer + gap + next header) an exact multiple of 64 KiB or next to one
            gap = (1 + r.usize_below(2)) * 65536 + 2 - r.usize_below(16);
            recipe.push_str(&format!("gap={} ", gap));
        }
        bytes.extend(junk(r, gap, hostile));
    }
    GenFile {
        bytes,
        recipe,
        embedded,
    }
}

/// the shapes the C01 statement names explicitly (and a few neighbours)
pub const N_EDGE: u64 = 16;

pub fn edge_case(idx: u64, r: &mut Rng) -> GenFile {
    let n = 1100 + r.usize_below(3000);
    let p = crate::plain::text(r, n);
    let lvl = 1 + r.below(9) as i32;
    let d = crate::comp::zlib_raw(&p, lvl, 0, 15, 8, &[]).unwrap();
    let z = zlib_wrap(&d, &p, 0x9C);
    let s = Stream {
        source: 0,
        recipe: String::new(),
        bytes: d.clone(),
        plain: p.clone(),
    };
    let (name, bytes): (&str, Vec<u8>) = match idx % N_EDGE {
        0 => {
            // bytes between the last DEFLATE block and the Adler-32
            let mut zz = vec![0x78, 0x9C];
            zz.extend_from_slice(&d);
            let k = 1 + r.usize_below(6);
            zz.extend(r.bytes(k));
            zz.extend_from_slice(&adler32(&p).to_be_bytes());
            ("png: gap between last block and adler32", png_wrap(r, &zz, &[], true, &[]))
        }
        1 => {
            let cuts = vec![z.len() / 2, z.len() / 2];
            ("png: zero-length IDAT chunk in the middle", png_wrap(r, &z, &cuts, true, &[]))
        }
        2 => {
            let k = r.usize_below(8);
            let tail = r.bytes(k);
            ("png: fewer than 8 bytes after the last IDAT chunk", png_wrap(r, &z, &[], false, &tail))
        }
        3 => {
            let k = 3 + r.usize_below(3);
            let tiny = r.bytes(k);
            let mut v = junk_clean(r, 6);
            v.extend(png_chunk(b"IDAT", &tiny));
            ("png: 3-5 byte IDAT payload", v)
        }
        4 => {
            let mut v = vec![0x50, 0x4b, 0x03, 0x04];
            v.extend_from_slice(&[20, 0, 0, 0, 8, 0, 0, 0, 0, 0]);
            v.extend_from_slice(&[0; 12]);
            v.extend_from_slice(&0u16.to_le_bytes());
            v.extend_from_slice(&(200 + r.below(60000) as u16).to_le_bytes());
            let k = r.usize_below(20);
            v.extend(r.bytes(k));
            ("zip: extra length pointing past EOF", v)
        }
        5 => {
            let cuts = vec![0];
            ("png: zero-length first IDAT chunk", png_wrap(r, &z, &cuts, true, &[]))
        }
        6 => {
            let cuts = vec![z.len()];
            ("png: zero-length last IDAT chunk", png_wrap(r, &z, &cuts, true, &[]))
        }
        7 => {
            // IDAT run directly at offset 0..3 of the file (no room for the look-back)
            let v = png_wrap(r, &z, &[], false, &[]);
            let k = r.usize_below(4);
            let mut f = junk_clean(r, k);
            f.extend(v);
            ("png: IDAT run starting at file offset < 4", f)
        }
        8 => {
            // png cut in the middle of a later IDAT chunk
            let cuts = random_cuts(r, z.len(), 3, false);
            let mut v = png_wrap(r, &z, &cuts, true, &[]);
            let k = r.usize_below(v.len());
            v.truncate(k);
            ("png: truncated", v)
        }
        9 => {
            // damaged CRC in the second IDAT chunk
            let cuts = vec![z.len() / 2];
            let mut v = png_wrap(r, &z, &cuts, true, &[]);
            let at = 33 + 8 + z.len() / 2 + 1;
            if at < v.len() {
                v[at] ^= 0x40;
            }
            ("png: wrong CRC on an IDAT chunk", v)
        }
        10 => {
            let mut v = gzip_wrap(r, &d, &p, 0b0011, false);
            let k = 10 + r.usize_below(v.len() - 10);
            v.truncate(k);
            ("gzip: truncated", v)
        }
        11 => {
            let o = ZipOpts {
                size_mode: 0,
                name_len: 5,
                extra_len: 0,
                data_descriptor: false,
                central_dir: false,
                hostile_fields: false,
            };
            let mut v = zip_wrap(r, &d, &p, &o);
            let k = r.usize_below(34);
            v.truncate(k);
            ("zip: truncated inside the local header", v)
        }
        12 => {
            // two wrappers back to back without any separation
            let (a, _, _, _) = wrap_stream(r, &s, 0, false);
            let (b, _, _, _) = wrap_stream(r, &s, 1, false);
            let mut v = a;
            v.extend(b);
            ("zlib immediately followed by gzip", v)
        }
        13 => {
            // an IDAT run whose 4-byte length field begins inside the previously accepted stream: a
            // zlib-wrapped stored block whose data ends with 00 00, then LL LL "IDAT" ...
            let dn = 1100 + r.usize_below(900);
            let mut data = r.bytes(dn);
            data.extend_from_slice(&[0, 0]);
            let mut v = vec![0x78, 0x01, 0x01];
            v.extend_from_slice(&(data.len() as u16).to_le_bytes());
            v.extend_from_slice(&(!(data.len() as u16)).to_le_bytes());
            v.extend_from_slice(&data);
            let pn = 1200 + r.usize_below(2000);
            let p2 = r.bytes(pn);
            let d2 = crate::comp::zlib_raw(&p2, 1, 0, 15, 8, &[]).unwrap();
            let z2 = zlib_wrap(&d2, &p2, 0x01);
            let overlap = 1 + r.usize_below(3); // how many bytes of the length field lie inside the stream
            let len_be = (z2.len() as u32).to_be_bytes();
            if len_be[..overlap].iter().all(|&b| b == 0) {
                v.extend_from_slice(&len_be[overlap..]);
            } else {
                v.extend_from_slice(&len_be);
            }
            let mut chunk = b"IDAT".to_vec();
            chunk.extend_from_slice(&z2);
            let c = crc32(&chunk);
            v.extend_from_slice(&chunk);
            v.extend_from_slice(&c.to_be_bytes());
            let k = r.usize_below(40);
            v.extend(r.bytes(k));
            ("png: IDAT length field overlapping the end of the previous stream", v)
        }
        14 => {
            // a PNG that ends inside one of the fields of an IDAT chunk: length, type, first/last data byte, and
            // each of the four CRC bytes, of the first or the last chunk of the run
            let nch = 1 + r.usize_below(3);
            let cuts = random_cuts(r, z.len(), nch, false);
            let v = png_wrap(r, &z, &cuts, true, &[]);
            // chunk starts: 33 (signature + IHDR) then 12 + payload each
            let mut bounds = vec![0usize];
            bounds.extend(cuts.iter().cloned());
            bounds.push(z.len());
            let mut starts = vec![];
            let mut at = 33usize;
            for wnd in bounds.windows(2) {
                starts.push((at, wnd[1] - wnd[0]));
                at += 12 + (wnd[1] - wnd[0]);
            }
            let (cs, cl) = if r.chance(1, 2) { starts[0] } else { *starts.last().unwrap() };
            let within = *r.pick(&[1usize, 3, 4, 5, 7, 8, 9]);
            let rel = match r.below(3) {
                0 => within.min(8 + cl),
                1 => 8 + cl - r.usize_below(2).min(cl),
                _ => 8 + cl + 1 + r.usize_below(4), // 1..4 bytes into the CRC (4 = complete chunk)
            };
            let mut f = v;
            f.truncate((cs + rel).min(f.len()));
            ("png: file ends inside a field of an IDAT chunk", f)
        }
        _ => {
            // file consisting only of signature bytes
            let k = 2 + r.usize_below(40);
            let v: Vec<u8> = (0..k).map(|_| *r.pick(&[0x78u8, 0x9C, 0x50, 0x4B, 0x1F, 0x8B, 0x49, 0x44, 0x01, 0xDA])).collect();
            ("only signature bytes", v)
        }
    };
    GenFile {
        bytes,
        recipe: format!("edge: {}", name),
        embedded: vec![],
    }
}

/// number of positions at which the scanner's two-byte signature table matches
pub fn count_signatures(f: &[u8]) -> usize {
    f.windows(2)
        .filter(|w| {
            matches!(
                (w[0], w[1]),
                (0x78, 0x01) | (0x78, 0x5E) | (0x78, 0x9C) | (0x78, 0xDA) | (0x50, 0x4B) | (0x1F, 0x8B) | (0x49, 0x44)
            )
        })
        .count()
}

/// does `b` begin with a well-formed PNG IDAT chunk (length, type, data, matching CRC)?
pub fn starts_with_valid_idat(b: &[u8]) -> bool {
    if b.len() < 12 || &b[4..8] != b"IDAT" {
        return false;
    }
    let n = u32::from_be_bytes([b[0], b[1], b[2], b[3]]) as usize;
    if b.len() < 12 + n {
        return false;
    }
    let mut h = crc32fast::Hasher::new();
    h.update(&b[4..8 + n]);
    h.finalize() == u32::from_be_bytes([b[8 + n], b[9 + n], b[10 + n], b[11 + n]])
}

/// Independent computation (from the wrapper formats, not from the library) of where a probe that
/// starts at signature position `i` would look for its data: Some((chunk start, is_png)).
pub fn probe_target(f: &[u8], i: usize) -> Option<(usize, bool)> {
    if i + 1 >= f.len() {
        return None;
    }
    match (f[i], f[i + 1]) {
        (0x78, 0x01) | (0x78, 0x5E) | (0x78, 0x9C) | (0x78, 0xDA) => Some((i + 2, false)),
        (0x1F, 0x8B) => {
            // RFC 1952 member header
            if i + 10 > f.len() || f[i + 2] != 8 {
                return None;
            }
            let flg = f[i + 3];
            let mut p = i + 10;
            if flg & 0x04 != 0 {
                if p + 2 > f.len() {
                    return None;
                }
                let x = u16::from_le_bytes([f[p], f[p + 1]]) as usize;
                p += 2 + x;
            }
            for bit in [0x08u8, 0x10] {
                if flg & bit != 0 {
                    loop {
                        if p >= f.len() {
                            return None;
                        }
                        p += 1;
                        if f[p - 1] == 0 {
                            break;
                        }
                    }
                }
            }
            if flg & 0x02 != 0 {
                p += 2;
            }
            if p > f.len() {
                return None;
            }
            Some((p, false))
        }
        (0x50, 0x4B) => {
            if i + 30 > f.len() || f[i + 2] != 3 || f[i + 3] != 4 || f[i + 8] != 8 || f[i + 9] != 0 {
                return None;
            }
            let n = u16::from_le_bytes([f[i + 26], f[i + 27]]) as usize;
            let x = u16::from_le_bytes([f[i + 28], f[i + 29]]) as usize;
            let p = i + 30 + n + x;
            if p > f.len() {
                return None;
            }
            Some((p, false))
        }
        (0x49, 0x44) => {
            if i >= 4 {
                Some((i - 4, true))
            } else {
                None
            }
        }
        _ => None,
    }
}

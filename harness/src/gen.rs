//! Independent generator of *valid but unusual* DEFLATE streams. Own bit writer, own tables, own
//! canonical code assignment: nothing is shared with the library under test. Ground truth
//! (plaintext, exact length in bytes) is kept for every stream, and every stream is additionally
//! checked by zlib's inflate before a monitor may rely on it (see `checked_stream`).

use crate::rng::Rng;

pub struct BitW {
    pub out: Vec<u8>,
    acc: u64,
    n: u32,
}

impl BitW {
    pub fn new() -> Self {
        BitW {
            out: vec![],
            acc: 0,
            n: 0,
        }
    }
    pub fn put(&mut self, v: u32, bits: u32) {
        if bits == 0 {
            return;
        }
        self.acc |= (v as u64 & ((1u64 << bits) - 1)) << self.n;
        self.n += bits;
        while self.n >= 8 {
            self.out.push(self.acc as u8);
            self.acc >>= 8;
            self.n -= 8;
        }
    }
    /// Huffman codes are packed starting with the most significant bit of the code
    pub fn put_code(&mut self, code: u32, len: u32) {
        let mut r = 0;
        for i in 0..len {
            r |= ((code >> (len - 1 - i)) & 1) << i;
        }
        self.put(r, len);
    }
    pub fn bitpos(&self) -> u32 {
        self.n
    }
    pub fn total_bits(&self) -> u64 {
        self.out.len() as u64 * 8 + self.n as u64
    }
    /// fill up to the next byte boundary with the low bits of `fill`
    pub fn pad(&mut self, fill: u32) {
        if self.n > 0 {
            let k = 8 - self.n;
            self.put(fill, k);
        }
    }
}

#[derive(Clone, Copy, Debug, PartialEq, Eq)]
pub enum Tok {
    Lit(u8),
    Ref { len: u16, dist: u16, irr258: bool },
}

pub const LEN_BASE: [u16; 29] = [
    3, 4, 5, 6, 7, 8, 9, 10, 11, 13, 15, 17, 19, 23, 27, 31, 35, 43, 51, 59, 67, 83, 99, 115, 131, 163,
    195, 227, 258,
];
pub const LEN_EXTRA: [u8; 29] = [
    0, 0, 0, 0, 0, 0, 0, 0, 1, 1, 1, 1, 2, 2, 2, 2, 3, 3, 3, 3, 4, 4, 4, 4, 5, 5, 5, 5, 0,
];
pub const DIST_BASE: [u16; 30] = [
    1, 2, 3, 4, 5, 7, 9, 13, 17, 25, 33, 49, 65, 97, 129, 193, 257, 385, 513, 769, 1025, 1537, 2049,
    3073, 4097, 6145, 8193, 12289, 16385, 24577,
];
pub const DIST_EXTRA: [u8; 30] = [
    0, 0, 0, 0, 1, 1, 2, 2, 3, 3, 4, 4, 5, 5, 6, 6, 7, 7, 8, 8, 9, 9, 10, 10, 11, 11, 12, 12, 13, 13,
];
pub const CL_ORDER: [usize; 19] = [16, 17, 18, 0, 8, 7, 9, 6, 10, 5, 11, 4, 12, 3, 13, 2, 14, 1, 15];

/// (length symbol index 0..28, extra value, extra bits)
pub fn len_sym(len: u16, irr: bool) -> (usize, u32, u32) {
    if len == 258 {
        if irr {
            return (27, 31, 5);
        }
        return (28, 0, 0);
    }
    let mut i = 27;
    while LEN_BASE[i] > len {
        i -= 1;
    }
    (i, (len - LEN_BASE[i]) as u32, LEN_EXTRA[i] as u32)
}

pub fn dist_sym(d: u32) -> (usize, u32, u32) {
    let mut i = 29;
    while (DIST_BASE[i] as u32) > d {
        i -= 1;
    }
    (i, d - DIST_BASE[i] as u32, DIST_EXTRA[i] as u32)
}

pub fn canon_codes(lens: &[u8]) -> Vec<u32> {
    let mut bl = [0u32; 16];
    for &l in lens {
        bl[l as usize] += 1;
    }
    bl[0] = 0;
    let mut next = [0u32; 16];
    let mut code = 0;
    for b in 1..16 {
        code = (code + bl[b - 1]) << 1;
        next[b] = code;
    }
    lens.iter()
        .map(|&l| {
            if l == 0 {
                0
            } else {
                let c = next[l as usize];
                next[l as usize] += 1;
                c
            }
        })
        .collect()
}

/// lengths of a random complete prefix code with `n` leaves (n >= 2), depth <= maxd
pub fn random_complete_lengths(r: &mut Rng, n: usize, maxd: u8, skew: u64) -> Vec<u8> {
    let mut leaves: Vec<u8> = vec![1, 1];
    while leaves.len() < n {
        let cands: Vec<usize> = (0..leaves.len()).filter(|&i| leaves[i] < maxd).collect();
        let i = if skew > 0 && r.chance(skew, 10) {
            *cands.iter().max_by_key(|&&i| leaves[i]).unwrap()
        } else {
            cands[r.usize_below(cands.len())]
        };
        let d = leaves[i] + 1;
        leaves[i] = d;
        leaves.push(d);
    }
    for i in (1..leaves.len()).rev() {
        let j = r.usize_below(i + 1);
        leaves.swap(i, j);
    }
    leaves
}

thread_local! {
    /// set by `dynamic_lengths_for` while it builds a code of shape 2 (see GenCfg::code_shape)
    static DEEP_INVERTED: std::cell::Cell<bool> = std::cell::Cell::new(false);
}

/// code lengths over an alphabet of `used.len()` symbols in which every used symbol (plus
/// `extra_syms` unused ones) gets a code; optionally frequency-sorted (Huffman-like)
pub fn lengths_for_used(
    r: &mut Rng,
    used: &[bool],
    freq: &[u32],
    maxd: u8,
    optimalish: bool,
    extra_syms: usize,
) -> Vec<u8> {
    let n = used.len();
    let mut idx: Vec<usize> = (0..n).filter(|&i| used[i]).collect();
    let mut unused: Vec<usize> = (0..n).filter(|&i| !used[i]).collect();
    for _ in 0..extra_syms {
        if unused.is_empty() {
            break;
        }
        let k = r.usize_below(unused.len());
        idx.push(unused.swap_remove(k));
    }
    while idx.len() < 2 {
        if unused.is_empty() {
            break;
        }
        let k = r.usize_below(unused.len());
        idx.push(unused.swap_remove(k));
    }
    // a complete code of depth <= maxd holds at most 2^maxd leaves
    let mut lens = random_complete_lengths(r, idx.len(), maxd, if optimalish { 3 } else { 0 });
    if optimalish {
        lens.sort();
        idx.sort_by(|&a, &b| freq[b].cmp(&freq[a]));
    }
    if DEEP_INVERTED.with(|d| d.get()) {
        // always split the deepest leaf: code lengths 1, 2, 3, ... up to maxd; longest codes to the most
        // frequent symbols, ties broken towards high symbol numbers (far distances, long lengths)
        lens = random_complete_lengths(r, idx.len(), maxd, 10);
        lens.sort_by(|a, b| b.cmp(a));
        idx.sort_by(|&a, &b| freq[b].cmp(&freq[a]).then(b.cmp(&a)));
    }
    let mut out = vec![0u8; n];
    for (k, &i) in idx.iter().enumerate() {
        out[i] = lens[k];
    }
    out
}

#[derive(Clone, Copy, Debug)]
pub struct GenCfg {
    pub max_plain: usize,
    pub alphabet: u32,
    pub match_pct: u64,
    pub allow_stored: bool,
    pub allow_fixed: bool,
    pub allow_dynamic: bool,
    pub irr258: bool,
    pub padding: bool,
    pub slack: bool,
    pub blocks: usize,
    pub empty_blocks: bool,
    /// maximum code length of literal/length and distance codes (<= 15)
    pub max_code_len: u8,
    /// never use run-length symbols 16/17/18 in dynamic headers
    pub no_rle: bool,
    /// 0 = random complete code, random or frequency-sorted assignment; 2 = maximally deep code with the
    /// LONGEST codes given to the MOST frequent symbols (what no compressor would emit)
    pub code_shape: u8,
}

impl GenCfg {
    pub fn random(r: &mut Rng, max_plain: usize) -> GenCfg {
        let max_plain = match r.below(5) {
            0 => 40,
            1 => 400,
            2 => 2500,
            3 => 5000,
            _ => max_plain,
        }
        .min(max_plain);
        let (s, f, d) = match r.below(8) {
            0 => (true, false, false),
            1 => (false, true, false),
            2 | 3 => (false, false, true),
            4 => (true, false, true),
            5 => (false, true, true),
            _ => (true, true, true),
        };
        GenCfg {
            max_plain,
            alphabet: *r.pick(&[1, 2, 6, 40, 256]),
            match_pct: *r.pick(&[0, 0, 5, 30, 70, 95]),
            allow_stored: s,
            allow_fixed: f,
            allow_dynamic: d,
            irr258: r.chance(1, 4),
            padding: r.chance(1, 3),
            slack: r.chance(1, 2),
            blocks: 1 + r.usize_below(5),
            empty_blocks: r.chance(1, 4),
            max_code_len: *r.pick(&[15, 15, 15, 10, 9, 7]),
            no_rle: r.chance(1, 8),
            code_shape: if r.chance(1, 6) { 2 } else { 0 },
        }
    }
    pub fn describe(&self) -> String {
        format!(
            "gen plain<={} alpha={} match%={} types={}{}{} irr258={} pad={} slack={} blocks<={} empty={} maxlen={} norle={}",
            self.max_plain,
            self.alphabet,
            self.match_pct,
            if self.allow_stored { "S" } else { "" },
            if self.allow_fixed { "F" } else { "" },
            if self.allow_dynamic { "D" } else { "" },
            self.irr258,
            self.padding,
            self.slack,
            self.blocks,
            self.empty_blocks,
            self.max_code_len,
            self.no_rle
        )
    }
}

pub fn gen_tokens(r: &mut Rng, cfg: &GenCfg, plain: &mut Vec<u8>, want: usize) -> Vec<Tok> {
    let mut toks = vec![];
    let start = plain.len();
    while plain.len() - start < want {
        let pos = plain.len();
        if pos > 0 && r.chance(cfg.match_pct, 100) {
            let maxd = pos.min(32768);
            let dist = match r.below(5) {
                0 => 1 + r.usize_below(maxd.min(8)),
                1 => 1 + r.usize_below(maxd.min(300)),
                2 => maxd - r.usize_below(maxd.min(4)),
                3 => 1,
                _ => 1 + r.usize_below(maxd),
            };
            let dist = dist.max(1).min(maxd);
            let len = match r.below(6) {
                0 => 3,
                1 => 3 + r.usize_below(6),
                2 => 255 + r.usize_below(4),
                3 => 258,
                _ => 3 + r.usize_below(256),
            };
            for i in 0..len {
                let b = plain[pos - dist + i];
                plain.push(b);
            }
            toks.push(Tok::Ref {
                len: len as u16,
                dist: dist as u16,
                irr258: len == 258 && cfg.irr258 && r.chance(1, 2),
            });
        } else {
            let b = (r.below(cfg.alphabet as u64) as u8).wrapping_add(if cfg.alphabet < 64 { 97 } else { 0 });
            plain.push(b);
            toks.push(Tok::Lit(b));
        }
    }
    toks
}

pub fn write_tokens(w: &mut BitW, toks: &[Tok], ll: &[u8], llc: &[u32], dl: &[u8], dlc: &[u32]) {
    for t in toks {
        match *t {
            Tok::Lit(b) => w.put_code(llc[b as usize], ll[b as usize] as u32),
            Tok::Ref { len, dist, irr258 } => {
                let (ls, lx, lxb) = len_sym(len, irr258);
                w.put_code(llc[257 + ls], ll[257 + ls] as u32);
                w.put(lx, lxb);
                let (ds, dx, dxb) = dist_sym(dist as u32);
                w.put_code(dlc[ds], dl[ds] as u32);
                w.put(dx, dxb);
            }
        }
    }
    w.put_code(llc[256], ll[256] as u32);
}

/// run-length encode a code-length sequence; (symbol 0..18, extra value)
/// style 0: greedy like zlib; 1: random legal choices; 2: no run-length symbols at all
pub fn rle_lengths(r: &mut Rng, all: &[u8], style: u32) -> Vec<(u8, u8)> {
    let mut out = vec![];
    let mut i = 0;
    while i < all.len() {
        let v = all[i];
        let mut run = 1;
        while i + run < all.len() && all[i + run] == v {
            run += 1;
        }
        if style == 2 {
            out.push((v, 0));
            i += 1;
            continue;
        }
        let fancy = style == 1;
        let use_rle = !fancy || r.chance(3, 4);
        // symbol 16 directly behind zeros (behind a 17/18 run or behind explicit zeros) repeats the zero
        if fancy && v == 0 && run >= 3 && i > 0 && all[i - 1] == 0 && r.chance(1, 12) {
            let take = 3 + r.usize_below(run.min(6) - 2);
            out.push((16, (take - 3) as u8));
            i += take;
            continue;
        }
        if v == 0 && run >= 3 && use_rle {
            let take = if fancy {
                3 + r.usize_below(run.min(138) - 2)
            } else {
                run.min(138)
            };
            if take >= 11 {
                out.push((18, (take - 11) as u8));
            } else {
                out.push((17, (take - 3) as u8));
            }
            i += take;
            continue;
        }
        // symbol 16 repeats the previous non-zero length
        if i > 0 && all[i - 1] == v && run >= 3 && use_rle && v != 0 {
            let take = if fancy {
                3 + r.usize_below(run.min(6) - 2)
            } else {
                run.min(6)
            };
            out.push((16, (take - 3) as u8));
            i += take;
            continue;
        }
        out.push((v, 0));
        i += 1;
    }
    out
}

/// fixed-Huffman code lengths
pub fn fixed_lengths() -> (Vec<u8>, Vec<u8>) {
    let mut ll = vec![8u8; 288];
    for l in ll.iter_mut().take(256).skip(144) {
        *l = 9;
    }
    for l in ll.iter_mut().take(280).skip(256) {
        *l = 7;
    }
    (ll, vec![5u8; 32])
}

/// write a dynamic block header for the given literal/length and distance code lengths
pub fn write_dynamic_header(
    r: &mut Rng,
    w: &mut BitW,
    ll: &[u8],
    dl: &[u8],
    slack: bool,
    no_rle: bool,
) {
    let mut hlit = 286;
    while hlit > 257 && ll[hlit - 1] == 0 {
        hlit -= 1;
    }
    let mut hdist = 30;
    while hdist > 1 && dl[hdist - 1] == 0 {
        hdist -= 1;
    }
    if slack && r.chance(1, 4) {
        hlit = (hlit + r.usize_below(4)).min(286);
        hdist = (hdist + r.usize_below(3)).min(30);
    }
    let mut all: Vec<u8> = ll[..hlit].to_vec();
    all.extend_from_slice(&dl[..hdist]);
    let style = if no_rle {
        2
    } else if slack && r.chance(1, 2) {
        1
    } else {
        0
    };
    let rle = rle_lengths(r, &all, style);
    let mut cu = vec![false; 19];
    let mut cf = vec![0u32; 19];
    for &(s, _) in &rle {
        cu[s as usize] = true;
        cf[s as usize] += 1;
    }
    let o2 = r.chance(1, 2);
    let e2 = if slack && r.chance(1, 4) { 1 } else { 0 };
    let cl = lengths_for_used(r, &cu, &cf, 7, o2, e2);
    let mut hclen = 19;
    while hclen > 4 && cl[CL_ORDER[hclen - 1]] == 0 {
        hclen -= 1;
    }
    if slack && r.chance(1, 4) {
        hclen = (hclen + r.usize_below(3)).min(19);
    }
    w.put((hlit - 257) as u32, 5);
    w.put((hdist - 1) as u32, 5);
    w.put((hclen - 4) as u32, 4);
    for i in 0..hclen {
        w.put(cl[CL_ORDER[i]] as u32, 3);
    }
    let clc = canon_codes(&cl);
    for &(s, x) in &rle {
        w.put_code(clc[s as usize], cl[s as usize] as u32);
        match s {
            16 => w.put(x as u32, 2),
            17 => w.put(x as u32, 3),
            18 => w.put(x as u32, 7),
            _ => {}
        }
    }
}

/// code lengths for a token list (random complete codes covering the used symbols)
pub fn dynamic_lengths_for(r: &mut Rng, toks: &[Tok], cfg: &GenCfg) -> (Vec<u8>, Vec<u8>) {
    let mut lu = vec![false; 286];
    let mut lf = vec![0u32; 286];
    let mut du = vec![false; 30];
    let mut df = vec![0u32; 30];
    lu[256] = true;
    lf[256] = 1;
    for t in toks {
        match *t {
            Tok::Lit(b) => {
                lu[b as usize] = true;
                lf[b as usize] += 1;
            }
            Tok::Ref { len, dist, irr258 } => {
                let (ls, _, _) = len_sym(len, irr258);
                lu[257 + ls] = true;
                lf[257 + ls] += 1;
                let (ds, _, _) = dist_sym(dist as u32);
                du[ds] = true;
                df[ds] += 1;
            }
        }
    }
    let opt = r.chance(1, 2);
    let extra = if cfg.slack && r.chance(1, 3) { r.usize_below(6) } else { 0 };
    DEEP_INVERTED.with(|d| d.set(cfg.code_shape == 2));
    // 286 used symbols need depth >= 9
    let nl = lu.iter().filter(|&&x| x).count() + extra;
    let mut maxd = cfg.max_code_len.max(2);
    while (1usize << maxd) < nl + 1 {
        maxd += 1;
    }
    let ll = lengths_for_used(r, &lu, &lf, maxd.min(15), opt, extra);
    let dx = if cfg.slack && r.chance(1, 3) { r.usize_below(3) } else { 0 };
    let dl = lengths_for_used(r, &du, &df, cfg.max_code_len.clamp(5, 15), opt, dx);
    DEEP_INVERTED.with(|d| d.set(false));
    (ll, dl)
}

pub struct GenStream {
    pub bytes: Vec<u8>,
    pub plain: Vec<u8>,
    /// (block type 0/1/2, number of tokens) per block
    pub blocks: Vec<(u8, usize)>,
    pub n_refs: usize,
    pub n_irr258: usize,
}

pub fn gen_stream(r: &mut Rng, cfg: &GenCfg) -> GenStream {
    let mut w = BitW::new();
    let mut plain = vec![];
    let nblocks = 1 + r.usize_below(cfg.blocks.max(1));
    let mut blocks = vec![];
    let mut n_refs = 0;
    let mut n_irr = 0;
    let mut kinds = vec![];
    if cfg.allow_stored {
        kinds.push(0u8);
    }
    if cfg.allow_fixed {
        kinds.push(1);
    }
    if cfg.allow_dynamic {
        kinds.push(2);
        kinds.push(2);
    }
    if kinds.is_empty() {
        kinds.push(2);
    }
    for b in 0..nblocks {
        let last = b == nblocks - 1;
        let want = if cfg.empty_blocks && r.chance(1, 6) {
            0
        } else {
            1 + r.usize_below((cfg.max_plain / nblocks).max(1))
        };
        let kind = *r.pick(&kinds);
        w.put(last as u32, 1);
        match kind {
            0 => {
                w.put(0, 2);
                let fill = if cfg.padding { r.below(256) as u32 } else { 0 };
                w.pad(fill);
                let want = want.min(65535);
                let start = plain.len();
                let sub = GenCfg {
                    match_pct: 30,
                    ..*cfg
                };
                let _ = gen_tokens(r, &sub, &mut plain, want);
                let n = (plain.len() - start).min(65535);
                plain.truncate(start + n);
                w.put(n as u32, 16);
                w.put(!(n as u32) & 0xffff, 16);
                for i in 0..n {
                    w.put(plain[start + i] as u32, 8);
                }
                blocks.push((0, n));
            }
            1 => {
                w.put(1, 2);
                let toks = gen_tokens(r, cfg, &mut plain, want);
                let (ll, dl) = fixed_lengths();
                let llc = canon_codes(&ll);
                let dlc = canon_codes(&dl);
                write_tokens(&mut w, &toks, &ll, &llc, &dl, &dlc);
                count_refs(&toks, &mut n_refs, &mut n_irr);
                blocks.push((1, toks.len()));
            }
            _ => {
                w.put(2, 2);
                let toks = gen_tokens(r, cfg, &mut plain, want);
                let (ll, dl) = dynamic_lengths_for(r, &toks, cfg);
                write_dynamic_header(r, &mut w, &ll, &dl, cfg.slack, cfg.no_rle);
                let llc = canon_codes(&ll);
                let dlc = canon_codes(&dl);
                write_tokens(&mut w, &toks, &ll, &llc, &dl, &dlc);
                count_refs(&toks, &mut n_refs, &mut n_irr);
                blocks.push((2, toks.len()));
            }
        }
    }
    let fill = if cfg.padding { r.below(256) as u32 } else { 0 };
    w.pad(fill);
    GenStream {
        bytes: w.out,
        plain,
        blocks,
        n_refs,
        n_irr258: n_irr,
    }
}

fn count_refs(toks: &[Tok], n_refs: &mut usize, n_irr: &mut usize) {
    for t in toks {
        if let Tok::Ref { irr258, .. } = t {
            *n_refs += 1;
            if *irr258 {
                *n_irr += 1;
            }
        }
    }
}

/// Dynamic header with explicit choices: `rle_style` as in `rle_lengths`, and exact HLIT / HDIST / HCLEN
/// values (clamped to what the lengths need). Returns false if the request cannot be honoured.
pub fn write_dynamic_header_exact(
    r: &mut Rng,
    w: &mut BitW,
    ll: &[u8],
    dl: &[u8],
    rle_style: u32,
    hlit: usize,
    hdist: usize,
    hclen_extra: usize,
) -> bool {
    let mut need_lit = 286;
    while need_lit > 257 && ll[need_lit - 1] == 0 {
        need_lit -= 1;
    }
    let mut need_dist = 30;
    while need_dist > 1 && dl[need_dist - 1] == 0 {
        need_dist -= 1;
    }
    if hlit < need_lit || hlit > 286 || hdist < need_dist || hdist > 30 {
        return false;
    }
    let mut all: Vec<u8> = ll[..hlit].to_vec();
    all.extend_from_slice(&dl[..hdist]);
    let rle = rle_lengths(r, &all, rle_style);
    let mut cu = vec![false; 19];
    let mut cf = vec![0u32; 19];
    for &(s, _) in &rle {
        cu[s as usize] = true;
        cf[s as usize] += 1;
    }
    let cl = lengths_for_used(r, &cu, &cf, 7, true, 0);
    let mut hclen = 19;
    while hclen > 4 && cl[CL_ORDER[hclen - 1]] == 0 {
        hclen -= 1;
    }
    let hclen = (hclen + hclen_extra).min(19);
    w.put((hlit - 257) as u32, 5);
    w.put((hdist - 1) as u32, 5);
    w.put((hclen - 4) as u32, 4);
    for i in 0..hclen {
        w.put(cl[CL_ORDER[i]] as u32, 3);
    }
    let clc = canon_codes(&cl);
    for &(s, x) in &rle {
        w.put_code(clc[s as usize], cl[s as usize] as u32);
        match s {
            16 => w.put(x as u32, 2),
            17 => w.put(x as u32, 3),
            18 => w.put(x as u32, 7),
            _ => {}
        }
    }
    true
}

/// literal/length code lengths forming a complete code in which `m` consecutive literals starting at
/// `first` share one length (so that the greedy run-length coder emits symbol 16 with count m-1), or in
/// which exactly `gap` unused symbols lie between two used literals (symbol 17/18 with count `gap`)
pub fn directed_lengths(first: usize, m: usize, gap: usize) -> Vec<u8> {
    let mut ll = vec![0u8; 286];
    // m symbols of length 4 use m/16 of the code space (m <= 7)
    for l in ll.iter_mut().skip(first).take(m) {
        *l = 4;
    }
    let mut rest = 16 - m; // sixteenths still free
    // the symbol behind the gap, then end-of-block, then fillers far away
    let mut slots = vec![first + m + gap, 256, 230, 240, 250];
    slots.retain(|&p| p < 286 && ll[p] == 0);
    let mut bit = 8;
    let mut len = 1u8;
    let mut placed = vec![];
    while bit >= 1 {
        if rest >= bit {
            placed.push(len);
            rest -= bit;
        }
        bit /= 2;
        len += 1;
    }
    // the Kraft sum must stay complete: if there are more slots to fill than pieces, split the last piece
    while placed.len() < 2 {
        let l = placed.pop().unwrap();
        placed.push(l + 1);
        placed.push(l + 1);
    }
    // end-of-block must be among the coded symbols: put pieces on slots in order, EOB included
    if !slots[..placed.len().min(slots.len())].contains(&256) {
        let k = placed.len().min(slots.len()) - 1;
        slots[k] = 256;
    }
    for (p, l) in slots.iter().zip(placed.iter()) {
        ll[*p] = *l;
    }
    ll
}

//! One place that draws a raw DEFLATE stream from the five sources (four real compressors, the
//! independent generator) together with its ground truth, and the byte-level mutators.

use crate::comp;
use crate::gen::{self, GenCfg};
use crate::plain;
use crate::rng::Rng;

pub struct Stream {
    /// 0..3 = compressor families (comp::FAMILIES), 4 = independent generator
    pub source: usize,
    pub recipe: String,
    pub bytes: Vec<u8>,
    /// plaintext as known to the producer
    pub plain: Vec<u8>,
}

pub const SOURCE_NAMES: [&str; 5] = ["zlib", "zlibng", "libdeflate", "miniz", "generator"];

/// a stream made by a real compressor from a structured random plaintext
pub fn compressor_stream(r: &mut Rng, max_plain: usize, family: Option<usize>) -> Stream {
    loop {
        let n = plain::size(r, max_plain);
        let (kind, mut p) = plain::make(r, n);
        if r.chance(1, 8) {
            // files that open with a short run of one byte (zeroed header, title rule)
            let b = *r.pick(&[0u8, 0, 0xff, b'=', b' ']);
            let l = 4 + r.usize_below(60);
            p.splice(0..0, std::iter::repeat(b).take(l));
        }
        if let Some((rec, d)) = comp::random_compress(r, &p, family) {
            return Stream {
                source: rec.family,
                recipe: format!("{} on {}[{}]", rec.text, plain::kind_name(kind), p.len()),
                bytes: d,
                plain: p,
            };
        }
    }
}

/// a stream from the independent generator, checked by zlib's inflate against the generator's
/// own ground truth. Returns None (and the caller counts `generator_rejected`) on disagreement,
/// so a generator bug can never turn into a library violation.
pub fn generator_stream(r: &mut Rng, max_plain: usize) -> Option<Stream> {
    let cfg = GenCfg::random(r, max_plain);
    generator_stream_cfg(r, &cfg)
}

pub fn generator_stream_cfg(r: &mut Rng, cfg: &GenCfg) -> Option<Stream> {
    let g = gen::gen_stream(r, cfg);
    match comp::zlib_inflate_raw(&g.bytes, g.plain.len() + 1024) {
        Some((p, used)) if p == g.plain && used == g.bytes.len() => Some(Stream {
            source: 4,
            recipe: format!(
                "{} blocks={:?} refs={} irr258={}",
                cfg.describe(),
                g.blocks,
                g.n_refs,
                g.n_irr258
            ),
            bytes: g.bytes,
            plain: g.plain,
        }),
        _ => None,
    }
}

/// scale: plaintext of several MiB (which = 2), tens of MiB (1) or beyond 128 MiB, the only size constant in
/// the crate (0), in a zlib stream of many blocks; sparse noise in long runs keeps the stream itself small
pub fn scale_stream(r: &mut Rng, which: u64) -> Option<Stream> {
    let n = match which {
        0 => (128 << 20) + (9 << 20) + r.usize_below(3 << 20),
        1 => (30 << 20) + r.usize_below(8 << 20),
        _ => (5 << 20) + r.usize_below(8 << 20),
    };
    let mut p = vec![r.byte(); n];
    let mut at = r.usize_below(3000);
    while at < n {
        p[at] = r.byte();
        at += 1 + r.usize_below(3000);
    }
    let level = *r.pick(&[1, 1, 6]);
    let d = comp::zlib_raw(&p, level, 0, 15, 8, &[])?;
    Some(Stream {
        source: 0,
        recipe: format!("zlib level {} on {} bytes of sparse noise in a run ({} MiB)", level, n, n >> 20),
        bytes: d,
        plain: p,
    })
}

/// any of the five sources; `gen_share` in tenths
pub fn any_stream(r: &mut Rng, max_plain: usize, gen_share: u64) -> Option<Stream> {
    if r.chance(gen_share, 10) {
        generator_stream(r, max_plain)
    } else {
        Some(compressor_stream(r, max_plain, None))
    }
}

pub fn mutate(r: &mut Rng, data: &[u8], other: Option<&[u8]>) -> (String, Vec<u8>) {
    let mut v = data.to_vec();
    let n = v.len();
    match r.below(9) {
        0 if n > 0 => {
            let k = r.usize_below(n);
            v.truncate(k);
            (format!("truncate@{}", k), v)
        }
        1 | 2 if n > 0 => {
            let flips = 1 + r.usize_below(8);
            let mut d = String::from("flip");
            for _ in 0..flips {
                // biased to the front (headers)
                let i = if r.chance(1, 2) { r.usize_below(n.min(32)) } else { r.usize_below(n) };
                let b = r.below(8);
                v[i] ^= 1 << b;
                d.push_str(&format!(" {}.{}", i, b));
            }
            (d, v)
        }
        3 if n > 0 => {
            let a = r.usize_below(n);
            let l = 1 + r.usize_below((n - a).min(64));
            for x in v[a..a + l].iter_mut() {
                *x = r.byte();
            }
            (format!("noise@{}+{}", a, l), v)
        }
        4 => {
            let a = r.usize_below(n + 1);
            let l = 1 + r.usize_below(16);
            let ins = r.bytes(l);
            v.splice(a..a, ins);
            (format!("insert@{}+{}", a, l), v)
        }
        5 if n > 1 => {
            let a = r.usize_below(n);
            let l = 1 + r.usize_below((n - a).min(16));
            v.drain(a..a + l);
            (format!("delete@{}+{}", a, l), v)
        }
        6 if n > 0 => {
            if let Some(o) = other {
                let a = r.usize_below(n);
                let b = r.usize_below(o.len() + 1);
                v.truncate(a);
                v.extend_from_slice(&o[b..]);
                (format!("splice@{}<-{}", a, b), v)
            } else {
                let a = r.usize_below(n);
                v[a] = r.byte();
                (format!("set@{}", a), v)
            }
        }
        7 if n > 1 => {
            let a = r.usize_below(n);
            let l = 1 + r.usize_below((n - a).min(200));
            let seg = v[a..a + l].to_vec();
            let at = r.usize_below(n + 1);
            v.splice(at..at, seg);
            (format!("dup@{}+{}->{}", a, l, at), v)
        }
        _ => {
            // bit-level truncation: zero the top bits of the last byte
            if n > 0 {
                let k = r.below(8) as u32;
                v[n - 1] &= ((1u16 << k) - 1) as u8;
            }
            ("masklast".into(), v)
        }
    }
}

/// the repository's own sample streams (real compressor output, 0.2-1 MB): (name, bytes) of the idx-th
/// `samples/*.deflate` file in name order, None if the directory is not there
pub fn repo_sample(idx: u64) -> Option<(String, Vec<u8>)> {
    let mut names: Vec<String> = std::fs::read_dir("/repo/samples")
        .ok()?
        .filter_map(|e| e.ok())
        .map(|e| e.file_name().to_string_lossy().to_string())
        .filter(|n| n.ends_with(".deflate"))
        .collect();
    names.sort();
    if names.is_empty() {
        return None;
    }
    let n = &names[(idx as usize) % names.len()];
    let b = std::fs::read(format!("/repo/samples/{}", n)).ok()?;
    if b.is_empty() {
        return None;
    }
    Some((n.clone(), b))
}

pub fn repo_sample_count() -> u64 {
    std::fs::read_dir("/repo/samples")
        .map(|d| d.filter_map(|e| e.ok()).filter(|e| e.file_name().to_string_lossy().ends_with(".deflate")).count() as u64)
        .unwrap_or(0)
}

/// zlib streams with as many block boundaries as possible (memLevel 1-3: 128-512 tokens per block) from
/// plaintexts with long repeats, at the lazy levels: state that the predictor carries from one block into
/// the next (deferred lazy matches, pending references, hash chains) gets hundreds of chances per stream
pub fn boundary_dense_stream(r: &mut Rng, max_plain: usize) -> Stream {
    loop {
        let n = 20_000 + r.usize_below(max_plain.max(20_001) - 20_000);
        let kind = *r.pick(&[0u64, 1, 2, 5, 6]);
        let mut p = plain::make_kind(r, kind, n);
        // the estimator models a stream as "insert everything + lazy matching" only if it sees a reference
        // into the interior of a match of 256 bytes or more: plant a long run and shorter runs of the same
        // byte behind it, so that the lazy-matching paths of the predictor are the ones exercised
        let b = r.byte();
        let at = r.usize_below(p.len() / 4 + 1);
        let long = 600 + r.usize_below(600);
        p.splice(at..at, std::iter::repeat(b).take(long));
        for _ in 0..3 + r.usize_below(6) {
            let at = at + long + r.usize_below(p.len() - at - long + 1);
            let l = 8 + r.usize_below(200);
            p.splice(at..at, std::iter::repeat(b).take(l));
        }
        let level = 4 + r.below(6) as i32;
        let memlevel = 1 + r.below(3) as i32;
        let wbits = if r.chance(3, 4) { 15 } else { 9 + r.below(7) as i32 };
        if let Some(d) = comp::zlib_raw(&p, level, 0, wbits, memlevel, &[]) {
            return Stream {
                source: 0,
                recipe: format!(
                    "boundary-dense: zlib level={} strategy=0 wbits={} memlevel={} on {}[{}]",
                    level,
                    wbits,
                    memlevel,
                    plain::kind_name(kind),
                    p.len()
                ),
                bytes: d,
                plain: p,
            };
        }
    }
}

//! pfv — worker process of the preflate-rs runtime monitors.
//!
//!   pfv run <ID> --tier quick|thorough --seed S --shard I --nshards N --journal F
//!           [--only K] [--fine] [--budget-mult M] [--as-gib G] [--scale X]
//!   pfv replay <replay.json> --journal F
//!   pfv judge <ID> <input file> --journal F
//!   pfv ncases <ID> --tier T --seed S [--scale X]
//!
//! The worker never prints verdict lines; it appends to its journal and the driver (`/verif/check`)
//! supervises, aggregates and prints.

#![allow(dead_code)]
mod api;
mod comp;
mod cparse;
mod ctx;
mod fence;
mod gen;
mod mon;
mod plain;
mod rng;
mod special;
mod streams;
mod wrap;

use ctx::{Ctx, Tier};
use serde_json::{json, Value};

pub struct Args {
    pub tier: Tier,
    pub seed: u64,
    pub shard: u64,
    pub nshards: u64,
    pub journal: String,
    pub only: Option<u64>,
    pub fine: bool,
    pub budget_mult: u64,
    pub as_gib: u64,
    /// scales the sampled part of every workload (never the exhaustive parts), in percent
    pub scale: u64,
    pub replay_dir: String,
    pub from: u64,
    pub skip: Vec<u64>,
}

fn parse_args(a: &[String]) -> Args {
    let mut r = Args {
        tier: Tier::Quick,
        seed: 1,
        shard: 0,
        nshards: 1,
        journal: "/dev/null".into(),
        only: None,
        fine: false,
        budget_mult: 1,
        as_gib: 4,
        scale: 100,
        replay_dir: "/verif/replays".into(),
        from: 0,
        skip: vec![],
    };
    let mut i = 0;
    while i < a.len() {
        let v = || a.get(i + 1).cloned().unwrap_or_default();
        match a[i].as_str() {
            "--tier" => {
                r.tier = if v() == "thorough" { Tier::Thorough } else { Tier::Quick };
                i += 1;
            }
            "--seed" => {
                r.seed = v().parse().unwrap_or(1);
                i += 1;
            }
            "--shard" => {
                r.shard = v().parse().unwrap();
                i += 1;
            }
            "--nshards" => {
                r.nshards = v().parse().unwrap();
                i += 1;
            }
            "--journal" => {
                r.journal = v();
                i += 1;
            }
            "--only" => {
                r.only = Some(v().parse().unwrap());
                i += 1;
            }
            "--from" => {
                r.from = v().parse().unwrap();
                i += 1;
            }
            "--skip" => {
                r.skip = v().split(',').filter_map(|x| x.parse().ok()).collect();
                i += 1;
            }
            "--fine" => r.fine = true,
            "--budget-mult" => {
                r.budget_mult = v().parse().unwrap();
                i += 1;
            }
            "--as-gib" => {
                r.as_gib = v().parse().unwrap();
                i += 1;
            }
            "--scale" => {
                r.scale = v().parse().unwrap();
                i += 1;
            }
            "--replay-dir" => {
                r.replay_dir = v();
                i += 1;
            }
            _ => {}
        }
        i += 1;
    }
    r
}

fn main() {
    let argv: Vec<String> = std::env::args().collect();
    if argv.len() < 3 {
        eprintln!("usage: pfv run|replay|judge|ncases ...");
        std::process::exit(2);
    }
    let cmd = argv[1].as_str();
    let args = parse_args(&argv[3..]);
    ctx::install_panic_hook();
    match cmd {
        "ncases" => {
            let m = mon::create(&argv[2], args.tier, args.seed, args.scale).expect("unknown property");
            println!("{}", m.ncases());
        }
        "run" => {
            let id = argv[2].clone();
            ctx::silence_stdout();
            if args.as_gib > 0 {
                ctx::set_address_space_limit(args.as_gib << 30);
            }
            let mut m = mon::create(&id, args.tier, args.seed, args.scale).expect("unknown property");
            let mut c = Ctx::new(
                &id,
                args.tier,
                args.seed,
                &args.journal,
                &format!("{}/{}", args.replay_dir, id),
            );
            c.fine = args.fine;
            c.budget_mult = args.budget_mult;
            let total = m.ncases();
            let budget = m.cpu_budget_s();
            if let Some(k) = args.only {
                c.begin_case(k, budget);
                m.run_case(k, &mut c);
                c.end_case(k);
            } else {
                if args.shard == 0 && args.from == 0 {
                    // oracle liveness self-test: a deliberately corrupted observation must raise the alarm
                    let st = match ctx::guard(|| m.selftest()) {
                        ctx::Guarded::Done(Ok(s)) => json!({"ok": true, "what": s}),
                        ctx::Guarded::Done(Err(s)) => json!({"ok": false, "what": s}),
                        ctx::Guarded::Panicked(s) => json!({"ok": false, "what": format!("panicked: {}", s)}),
                    };
                    c.counters.insert(
                        "selftest_ok".into(),
                        if st["ok"].as_bool().unwrap_or(false) { 1 } else { 0 },
                    );
                    c.sample_selftest(st);
                }
                let mut k = args.shard;
                while k < total {
                    if k >= args.from && !args.skip.contains(&k) {
                        c.begin_case(k, budget);
                        m.run_case(k, &mut c);
                        c.end_case(k);
                    }
                    k += args.nshards;
                }
            }
            let extra: Value = m.extra();
            c.summary(extra);
        }
        "exp" => {
            // experiment: which kinds of invalid reconstruction arguments are safe to call on this tree?
            let args = parse_args(&argv[3..]);
            let variant: u64 = argv[2].parse().unwrap();
            ctx::set_address_space_limit(2 << 30);
            let mut r = rng::Rng::derive(args.seed, 0xE0, variant, 0);
            let mut n_ok = 0;
            let mut n_err = 0;
            for i in 0..400 {
                let st = match streams::any_stream(&mut r, 20000, 3) { Some(s) => s, None => continue };
                let a = match api::cur::analyze(&st.bytes, false) { api::Out::Ok(a) => a, _ => continue };
                let mut plain = a.plain.clone();
                if plain.len() < 40 { continue; }
                match variant {
                    0 => { let k = plain.len() * 2 / 3; plain.truncate(k); }
                    1 => { let k = plain.len() - 1; plain.truncate(k); }
                    2 => { plain.extend_from_slice(b"extra bytes behind the plaintext"); }
                    3 => { let n = plain.len(); plain[n - 1] ^= 0x55; }
                    _ => { let from = plain.len() * 2 / 3; let i2 = from + r.usize_below(plain.len() - from); plain[i2] ^= 0x55; }
                }
                eprintln!("call {} variant {} plain {} corr {}", i, variant, plain.len(), a.corr.len());
                match api::cur::reconstruct(&plain, &a.corr) { api::Out::Ok(_) => n_ok += 1, _ => n_err += 1 }
            }
            eprintln!("variant {} done ok={} err={}", variant, n_ok, n_err);
        }
        "exp2" => {
            // experiment: acceptance of libdeflate streams over a plaintext file, per level
            let p = std::fs::read(&argv[2]).unwrap();
            for level in 0..=12 {
                if let Some(d) = comp::libdeflate_raw(&p, level) {
                    let a = api::cur::analyze(&d, true);
                    eprintln!("libdeflate level {:2}: {} bytes -> {} {}", level, d.len(), a.kind(), a.as_ok().map(|x| x.params.chars().take(0).collect::<String>() + &format!("corr {}", x.corr.len())).unwrap_or_default());
                }
            }
        }
        "corpus" => {
            // seed corpus for the coverage-guided stage: small streams and files from the generators
            let dir = argv[2].clone();
            let args = parse_args(&argv[3..]);
            let n = args.nshards.max(1);
            std::fs::create_dir_all(format!("{}/stream", dir)).ok();
            std::fs::create_dir_all(format!("{}/file", dir)).ok();
            let mut r = rng::Rng::derive(args.seed, 0xC0, 0, 0);
            for i in 0..n {
                if let Some(st) = streams::any_stream(&mut r, 3000, 5) {
                    std::fs::write(format!("{}/stream/s{}", dir, i), &st.bytes).ok();
                }
                let (_, d, _) = special::shape(i, &mut r);
                if d.len() < 20_000 {
                    std::fs::write(format!("{}/stream/p{}", dir, i), &d).ok();
                }
                let g = wrap::assemble(&mut r, 2500, 2);
                std::fs::write(format!("{}/file/f{}", dir, i), &g.bytes).ok();
                let e = wrap::edge_case(i, &mut r);
                std::fs::write(format!("{}/file/e{}", dir, i), &e.bytes).ok();
            }
        }
        "digest" => {
            // C14, cross-process part: one line with the digest of every public function's result on a
            // seeded input set, computed on `threads` threads (all of which must agree)
            let args = parse_args(&argv[2..]);
            ctx::silence_stdout();
            let threads = args.nshards.max(1) as usize;
            if args.as_gib > 0 {
                // the processes differ in how much address space they may use as well
                ctx::set_address_space_limit(args.as_gib << 30);
            }
            let mut all = vec![];
            for k in 0..4u64 {
                let inputs = std::sync::Arc::new(mon::c14::input_set(args.seed, k, 10, 6000));
                let hs: Vec<_> = (0..threads)
                    .map(|_| {
                        let inputs = inputs.clone();
                        std::thread::spawn(move || mon::c14::digest_of_baseline(&mon::c14::baseline(&inputs)))
                    })
                    .collect();
                let ds: Vec<u64> = hs.into_iter().map(|h| h.join().unwrap_or(0)).collect();
                if ds.iter().any(|d| *d != ds[0]) {
                    eprintln!("DIGEST-THREADS-DISAGREE {:?}", ds);
                    std::process::exit(3);
                }
                all.push(ds[0]);
            }
            eprintln!("DIGEST {}", all.iter().map(|d| format!("{:016x}", d)).collect::<Vec<_>>().join(""));
        }
        "judge" => {
            let id = argv[2].clone();
            let path = argv[3].clone();
            let args = parse_args(&argv[4..]);
            ctx::silence_stdout();
            ctx::set_address_space_limit(args.as_gib.max(8) << 30);
            let bytes = std::fs::read(&path).expect("input file");
            let mut m = mon::create(&id, args.tier, args.seed, args.scale).expect("unknown property");
            let mut c = Ctx::new(
                &id,
                args.tier,
                args.seed,
                &args.journal,
                &format!("{}/{}", args.replay_dir, id),
            );
            c.begin_case(0, m.cpu_budget_s() * 5);
            m.judge_file(&bytes, &mut c);
            c.end_case(0);
            let v = c.violations;
            c.summary(json!({}));
            std::process::exit(if v > 0 { 1 } else { 0 });
        }
        "replay" => {
            let path = argv[2].clone();
            let rec: Value = serde_json::from_slice(&std::fs::read(&path).expect("replay file")).expect("json");
            let id = rec["property"].as_str().unwrap().to_string();
            let tier = if rec["tier"] == "thorough" { Tier::Thorough } else { Tier::Quick };
            let seed = rec["seed"].as_u64().unwrap_or(1);
            let k = rec["k"].as_u64().unwrap_or(0);
            ctx::silence_stdout();
            ctx::set_address_space_limit(16 << 30);
            let mut m = mon::create(&id, tier, seed, 100).expect("unknown property");
            let mut c = Ctx::new(&id, tier, seed, &args.journal, "/dev/null");
            c.replay_mode = true;
            c.begin_case(k, m.cpu_budget_s() * 5);
            let input = ctx::unhex(rec["input_hex"].as_str().unwrap_or(""));
            let full = rec["input_len"].as_u64().unwrap_or(0) as usize == input.len();
            if full && m.can_judge_file(&rec) {
                m.judge_file(&input, &mut c);
            } else {
                m.run_case(k, &mut c);
            }
            c.end_case(k);
            let v = c.violations;
            c.summary(json!({}));
            eprintln!(
                "replay of {}: {}",
                path,
                if v > 0 { "violation reproduced" } else { "no violation observed" }
            );
            std::process::exit(if v > 0 { 1 } else { 0 });
        }
        _ => {
            eprintln!("unknown command");
            std::process::exit(2);
        }
    }
}

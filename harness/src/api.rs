//! The library under test (and, through the same macro, the frozen reference builds), every call
//! wrapped in the panic monitor.

use crate::ctx::{guard, Guarded};

#[derive(Clone, Debug, PartialEq, Eq)]
pub struct Analysis {
    pub plain: Vec<u8>,
    pub corr: Vec<u8>,
    pub size: usize,
    /// Debug rendering of the estimated parameters
    pub params: String,
}

#[derive(Clone, Debug, PartialEq, Eq)]
pub enum Out<T> {
    Ok(T),
    /// exit code name
    Err(String),
    /// panic site "file:line | message"
    Panic(String),
}

impl<T> Out<T> {
    pub fn kind(&self) -> String {
        match self {
            Out::Ok(_) => "ok".into(),
            Out::Err(c) => format!("err:{}", c),
            Out::Panic(_) => "panic".into(),
        }
    }
    pub fn is_ok(&self) -> bool {
        matches!(self, Out::Ok(_))
    }
    pub fn ok(self) -> Option<T> {
        match self {
            Out::Ok(v) => Some(v),
            _ => None,
        }
    }
    pub fn as_ok(&self) -> Option<&T> {
        match self {
            Out::Ok(v) => Some(v),
            _ => None,
        }
    }
}

pub fn lift<T, E>(g: Guarded<Result<T, E>>, code: impl Fn(&E) -> String) -> Out<T> {
    match g {
        Guarded::Done(Ok(v)) => Out::Ok(v),
        Guarded::Done(Err(e)) => Out::Err(code(&e)),
        Guarded::Panicked(s) => Out::Panic(s),
    }
}

macro_rules! api_impl {
    ($m:ident, $krate:ident) => {
        pub mod $m {
            use super::*;
            use std::io::Cursor;
            pub use $krate::verif;
            pub use $krate::verif::Op;

            fn code(e: &$krate::PreflateError) -> String {
                format!("{:?}", e.exit_code())
            }

            pub fn analyze(d: &[u8], verify: bool) -> Out<Analysis> {
                lift(
                    guard(|| {
                        $krate::decompress_deflate_stream(d, verify, 0).map(|r| Analysis {
                            params: format!("{:?}", r.parameters),
                            plain: r.plain_text,
                            corr: r.prediction_corrections,
                            size: r.compressed_size,
                        })
                    }),
                    code,
                )
            }

            pub fn reconstruct(plain: &[u8], corr: &[u8]) -> Out<Vec<u8>> {
                lift(guard(|| $krate::recompress_deflate_stream(plain, corr)), code)
            }

            pub fn expand(f: &[u8]) -> Out<Vec<u8>> {
                lift(guard(|| $krate::expand_zlib_chunks(f, 0)), code)
            }

            pub fn recreate(container: &[u8]) -> Out<Vec<u8>> {
                lift(
                    guard(|| {
                        let mut out = Vec::new();
                        $krate::recreated_zlib_chunks(&mut Cursor::new(container), &mut out).map(|_| out)
                    }),
                    code,
                )
            }

            pub fn recreate_io<R: std::io::Read, W: std::io::Write>(r: &mut R, w: &mut W) -> Out<()> {
                lift(guard(|| $krate::recreated_zlib_chunks(r, w)), code)
            }

            pub fn zstd_compress(f: &[u8]) -> Out<Vec<u8>> {
                lift(guard(|| $krate::compress_zstd(f, 0)), code)
            }

            pub fn zstd_decompress(f: &[u8], capacity: usize) -> Out<Vec<u8>> {
                lift(guard(|| $krate::decompress_zstd(f, capacity)), code)
            }

            pub fn parse_and_rewrite(d: &[u8]) -> Out<(Vec<u8>, usize, Vec<u8>)> {
                lift(guard(|| verif::parse_and_rewrite(d)), code)
            }

            pub fn estimate(d: &[u8]) -> Out<verif::ParamVec> {
                lift(guard(|| verif::estimate(d)), code)
            }

            pub fn roundtrip_with_params(
                d: &[u8],
                v: &verif::ParamVec,
            ) -> Out<(Vec<u8>, usize, usize, verif::ParamVec)> {
                lift(guard(|| verif::roundtrip_with_params(d, v)), code)
            }

            pub fn analyze_ops(d: &[u8]) -> Out<Vec<Op>> {
                lift(guard(|| verif::analyze_ops(d)), code)
            }

            pub fn scan_spans(d: &[u8]) -> Out<Vec<(u8, usize, usize)>> {
                match guard(|| verif::scan_spans(d)) {
                    Guarded::Done(v) => Out::Ok(v),
                    Guarded::Panicked(s) => Out::Panic(s),
                }
            }

            pub fn versions() -> (u8, u16) {
                (verif::wrapper_version(), verif::file_version())
            }
        }
    };
}

api_impl!(cur, preflate_rs);
api_impl!(ref0, preflate_ref0);
api_impl!(ref1, preflate_ref1);

/// `roundtrip_with_params` of the tree under test with the failing half made visible: the Err text is prefixed
/// with "decode:" when corrections WERE produced and the reconstruction from them failed
pub fn cur_roundtrip_phased(
    d: &[u8],
    v: &preflate_rs::verif::ParamVec,
) -> Out<(Vec<u8>, usize, usize, preflate_rs::verif::ParamVec)> {
    match guard(|| preflate_rs::verif::roundtrip_with_params_phased(d, v)) {
        Guarded::Done(Ok(x)) => Out::Ok(x),
        Guarded::Done(Err((decode, e))) => Out::Err(format!("{}{:?}", if decode { "decode:" } else { "" }, e.exit_code())),
        Guarded::Panicked(s) => Out::Panic(s),
    }
}

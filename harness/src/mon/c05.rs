//! C05 — analysing arbitrary bytes ends in Ok or Err: no panic, no hang.
//!
//! Refuting observation: a panic escaping `decompress_deflate_stream` (caught here, site recorded),
//! death of the worker process, or the CPU budget of the case being exceeded (the watchdog kills the
//! worker; the driver re-judges the case in isolation with ten times the budget).

use super::{is_parse_stage_error, scaled, tiny, Monitor};
use crate::api::{cur, Out};
use crate::ctx::{hex_prefix, Ctx, Tier};
use crate::rng::{hash64, Rng};
use crate::{special, streams};
use serde_json::json;

pub struct C05 {
    tier: Tier,
    seed: u64,
    n_tiny: u64,
    n_hdr: u64,
    n_wrap: u64,
    n_gen: u64,
    n_comp: u64,
    n_shape: u64,
    n_samples: u64,
}

impl C05 {
    pub fn new(tier: Tier, seed: u64, scale: u64) -> C05 {
        let n_tiny = tiny::chunks_le3() + tier.pick(0, tiny::chunks_eq4());
        C05 {
            tier,
            seed,
            n_tiny,
            n_hdr: scaled(tier.pick(2_000, 50_000), scale),
            // one case per start offset of a long run around the 64 KiB (and, thorough, 96/128 KiB) marks
            n_wrap: tier.pick(800, 3 * 800),
            n_gen: scaled(tier.pick(20_000, 250_000), scale),
            n_comp: scaled(tier.pick(8_000, 100_000), scale),
            n_shape: scaled(tier.pick(256, 6_400), scale),
            n_samples: tier.pick(16, 3 * streams::repo_sample_count()),
        }
    }

    /// both verify settings on one input; returns true when the input got past the parser
    fn judge(d: &[u8], label: &str, ctx: &mut Ctx, tiny: bool) -> bool {
        let mut deep = false;
        for verify in [false, true] {
            let out = cur::analyze(d, verify);
            if !tiny {
                ctx.count(&format!("outcome:{}", out.kind()));
            }
            match &out {
                Out::Ok(_) => deep = true,
                Out::Err(c) => {
                    if !is_parse_stage_error(c) {
                        deep = true;
                    }
                }
                Out::Panic(site) => {
                    deep = true;
                    ctx.violation(
                        "panic",
                        &format!("panic|{}", site),
                        &format!(
                            "decompress_deflate_stream(verify={}) panicked at {} on {} ({} bytes)",
                            verify,
                            site,
                            label,
                            d.len()
                        ),
                        json!({"verify": verify, "label": label}),
                        d,
                    );
                }
            }
        }
        ctx.count_n("evaluations", 2);
        deep
    }

    fn judge_sampled(&mut self, d: &[u8], label: &str, ctx: &mut Ctx) {
        ctx.item_bytes(label, d);
        let deep = Self::judge(d, label, ctx, false);
        if deep {
            ctx.nontrivial(hash64(d));
            ctx.count("inputs_past_parser");
        }
        if ctx.want_sample() && deep {
            ctx.sample(json!({"input": hex_prefix(d, 48), "len": d.len(), "how": label}));
        }
    }
}

/// noise behind every plausible block header
fn header_noise(r: &mut Rng) -> (String, Vec<u8>) {
    let mut w = crate::gen::BitW::new();
    let kind = r.below(6);
    let label;
    match kind {
        0 => {
            // every 3-bit header followed by noise
            let h = r.below(8) as u32;
            w.put(h, 3);
            label = format!("hdr{:03b}+noise", h);
        }
        1 => {
            // stored block with valid LEN/NLEN and too little / enough data
            w.put(r.below(2) as u32, 1);
            w.put(0, 2);
            w.pad(r.below(32) as u32);
            let n = *r.pick(&[0u32, 1, 5, 300, 65535]);
            w.put(n, 16);
            w.put(!n & 0xffff, 16);
            label = format!("stored len={} valid", n);
        }
        2 => {
            w.put(r.below(2) as u32, 1);
            w.put(0, 2);
            w.pad(0);
            let n = r.below(65536) as u32;
            w.put(n, 16);
            w.put(r.below(65536) as u32, 16);
            label = "stored LEN/NLEN random".to_string();
        }
        3 => {
            // dynamic header with a complete code-length code, then noise
            w.put(r.below(2) as u32, 1);
            w.put(2, 2);
            w.put(r.below(30) as u32, 5);
            w.put(r.below(30) as u32, 5);
            let ncl = 2 + r.usize_below(17);
            let cl = crate::gen::random_complete_lengths(r, ncl, 7, 0);
            let mut full = vec![0u8; 19];
            let mut slots: Vec<usize> = (0..19).collect();
            for &l in &cl {
                let k = r.usize_below(slots.len());
                full[slots.swap_remove(k)] = l;
            }
            let mut hclen = 19;
            while hclen > 4 && full[crate::gen::CL_ORDER[hclen - 1]] == 0 {
                hclen -= 1;
            }
            w.put((hclen - 4) as u32, 4);
            for i in 0..hclen {
                w.put(full[crate::gen::CL_ORDER[i]] as u32, 3);
            }
            label = "dynamic: valid code-length code + noise".to_string();
        }
        4 => {
            w.put(r.below(2) as u32, 1);
            w.put(2, 2);
            label = "dynamic: noise header".to_string();
        }
        _ => {
            w.put(1, 1);
            w.put(1, 2);
            label = "fixed + noise".to_string();
        }
    }
    let mut v = w.out;
    // keep the partially filled byte: BitW only flushes whole bytes, so append noise directly
    let m = *r.pick(&[4usize, 40, 400, 4000]);
    let n = r.usize_below(m + 1);
    let tail = r.bytes(n + 1);
    v.extend_from_slice(&tail);
    (label, v)
}

impl Monitor for C05 {
    fn ncases(&self) -> u64 {
        self.n_tiny + self.n_hdr + self.n_wrap + self.n_gen + self.n_comp + self.n_shape + self.n_samples
    }

    fn cpu_budget_s(&self) -> u64 {
        // worst legitimate cost: ~20 CPU-s per analysis of 400 KB of two-symbol noise (chain walks of 4096)
        self.tier.pick(120, 400)
    }

    fn run_case(&mut self, k: u64, ctx: &mut Ctx) {
        let mut k = k;
        if k < self.n_tiny {
            // exhaustive part
            let fine = ctx.fine;
            let mut deep_inputs = 0u64;
            let mut f = |s: &[u8]| {
                if fine {
                    ctx.item_bytes("tiny", s);
                }
                if Self::judge(s, "tiny", ctx, true) {
                    deep_inputs += 1;
                }
            };
            let n = if k < tiny::chunks_le3() {
                tiny::for_chunk_le3(k, &mut f)
            } else {
                tiny::for_chunk_eq4(k - tiny::chunks_le3(), &mut f)
            };
            ctx.count_n("tiny_strings_enumerated", n);
            ctx.count_n("tiny_strings_past_parser", deep_inputs);
            return;
        }
        k -= self.n_tiny;
        if k == 1 || k == 3 || k == 5 {
            // scale: plaintext of several MiB up to beyond 128 MiB
            let mut r = Rng::derive(self.seed, 0x0507, k, 0);
            if let Some(st) = streams::scale_stream(&mut r, (k - 1) / 2) {
                ctx.count("cases:scale");
                ctx.count(&format!("scale:plaintext_{}MiB", st.plain.len() >> 20));
                self.judge_sampled(&st.bytes, &st.recipe, ctx);
            }
            return;
        }
        if k < self.n_hdr {
            let mut r = Rng::derive(self.seed, 0x0501, k, 0);
            for _ in 0..50 {
                let (label, d) = header_noise(&mut r);
                self.judge_sampled(&d, &label, ctx);
            }
            ctx.count("cases:header_noise");
            return;
        }
        k -= self.n_hdr;
        if k < self.n_wrap {
            // the hash chains keep positions in u16 and renormalise periodically: place a maximal match
            // at every offset around the marks where that arithmetic wraps
            let mut r = Rng::derive(self.seed, 0x0505, k, 0);
            // renormalisation happens when (position + 8) reaches 0xfe08 and then every 0x7e00 bytes
            let mark = 65024 + 32256 * ((k / 800) as usize % 3);
            let off = mark - 500 + (k % 800) as usize;
            let mut p = crate::plain::text(&mut r, off);
            let b = loop {
                let b = r.byte();
                if Some(&b) != p.last() {
                    break b;
                }
            };
            // literal + one maximal match + a short rest of the run (so that lazy evaluation probes right
            // behind the maximal match), then text with shorter runs of the same byte (matches that point
            // into the interior of the long one make the insertion policy look like "add all")
            let run = 259 + *r.pick(&[3usize, 5, 10, 20, 60, 200, 400]);
            p.extend(std::iter::repeat(b).take(run));
            for _ in 0..1 + r.usize_below(4) {
                let t = 20 + r.usize_below(800);
                p.extend(crate::plain::text(&mut r, t));
                let l = 4 + r.usize_below(300);
                p.extend(std::iter::repeat(b).take(l));
            }
            let tail = 20 + r.usize_below(2000);
            p.extend(crate::plain::text(&mut r, tail));
            // every offset under several compressor settings (greedy and lazy, fast and slow insertion)
            let ml = *r.pick(&[8, 8, 9, 7]);
            let streams: Vec<(String, Option<Vec<u8>>)> = vec![
                ("zlib 1".into(), crate::comp::zlib_raw(&p, 1, 0, 15, ml, &[])),
                ("zlib 4".into(), crate::comp::zlib_raw(&p, 4, 0, 15, ml, &[])),
                ("zlib 6".into(), crate::comp::zlib_raw(&p, 6, 0, 15, ml, &[])),
                ("zlib 9".into(), crate::comp::zlib_raw(&p, 9, 0, 15, ml, &[])),
                ("zlib-ng 6".into(), crate::comp::zlibng_raw(&p, 6, 0, 15, 8)),
                ("libdeflate 6".into(), crate::comp::libdeflate_raw(&p, 6)),
            ];
            for (what, d) in streams {
                if let Some(d) = d {
                    ctx.count("cases:run_across_position_wrap");
                    self.judge_sampled(&d, &format!("run of {} starting at plaintext offset {} ({})", run, off, what), ctx);
                }
            }
            return;
        }
        k -= self.n_wrap;
        if k >= self.n_gen + self.n_comp + self.n_shape {
            let idx = k - self.n_gen - self.n_comp - self.n_shape;
            let mut r = Rng::derive(self.seed, 0x0506, idx, 0);
            let pick = if self.tier == Tier::Quick { r.below(1000) } else { idx };
            match streams::repo_sample(pick) {
                Some((name, b)) => {
                    ctx.count("cases:repo_sample");
                    self.judge_sampled(&b, &format!("repo sample: {}", name), ctx);
                    for _ in 0..3 {
                        let (how, m) = streams::mutate(&mut r, &b, None);
                        self.judge_sampled(&m, &format!("{} <- repo sample: {}", how, name), ctx);
                    }
                }
                None => ctx.count("repo_samples_missing"),
            }
            return;
        }
        let (src, mut r) = if k < self.n_gen {
            (0, Rng::derive(self.seed, 0x0502, k, 0))
        } else if k < self.n_gen + self.n_comp {
            (1, Rng::derive(self.seed, 0x0503, k - self.n_gen, 0))
        } else {
            (2, Rng::derive(self.seed, 0x0504, k - self.n_gen - self.n_comp, 0))
        };
        let max_plain = self.tier.pick(200_000, 500_000);
        let (label, base) = match src {
            0 => match streams::generator_stream(&mut r, max_plain) {
                Some(s) => (format!("generator: {}", s.recipe), s.bytes),
                None => {
                    ctx.count("generator_rejected");
                    return;
                }
            },
            1 => {
                let s = streams::compressor_stream(&mut r, max_plain, None);
                (format!("{}: {}", streams::SOURCE_NAMES[s.source], s.recipe), s.bytes)
            }
            _ => {
                let idx = k - self.n_gen - self.n_comp;
                let (name, d, p) = special::shape(idx, &mut r);
                match crate::comp::zlib_inflate_raw(&d, p.len() + 1024) {
                    Some((zp, used)) if zp == p && used == d.len() => {}
                    _ => {
                        ctx.count("generator_rejected");
                        return;
                    }
                }
                (format!("shape: {}", name), d)
            }
        };
        ctx.count(&format!("cases:{}", ["generator", "compressor", "shape"][src]));
        self.judge_sampled(&base, &label, ctx);
        let nm = if base.len() > 100_000 { 2 } else { 6 };
        for _ in 0..nm {
            let (how, m) = streams::mutate(&mut r, &base, None);
            self.judge_sampled(&m, &format!("{} <- {}", how, label), ctx);
        }
    }

    fn can_judge_file(&self, _rec: &serde_json::Value) -> bool {
        true
    }

    fn judge_file(&mut self, bytes: &[u8], ctx: &mut Ctx) {
        self.judge_sampled(bytes, "file", ctx);
    }

    fn selftest(&mut self) -> Result<String, String> {
        // the panic monitor must see a panic raised below the same guard the library calls run under
        let o: Out<()> = crate::api::lift(
            crate::ctx::guard(|| -> Result<(), ()> { panic!("selftest panic") }),
            |_| String::new(),
        );
        match o {
            Out::Panic(s) if s.contains("selftest panic") => {
                Ok(format!("injected panic observed by the monitor as '{}'", s))
            }
            _ => Err("injected panic was not observed".into()),
        }
    }
}

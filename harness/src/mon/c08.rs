//! C08 — reconstruction never depends on the estimated parameters being right.
//!
//! Hooks: `estimate(D) -> v` and `roundtrip_with_params(D, v') -> (bytes, consumed, |corrections|, v'')`.
//! v' ranges over the *image* of the estimator (the vectors it can return for some stream, with the
//! couplings the code imposes), paired with streams for which the estimator itself would not have
//! chosen them. Refuting observations: a panic or CPU/memory bound hit; Ok with bytes != D[..consumed];
//! v'' != v'. Err is an allowed outcome.

use super::{scaled, Monitor};
use crate::api::{cur, Out};
use crate::ctx::{hex_prefix, Ctx, Tier};
use crate::rng::{digest_hex, hash64, Rng};
use crate::{special, streams};
use serde_json::json;

pub type PV = [u32; 18];

pub struct C08 {
    tier: Tier,
    seed: u64,
    n_gen: u64,
    n_comp: u64,
    n_shape: u64,
}

const S_STRATEGY: usize = 0;
const S_HUFF: usize = 1;
const S_ZCOMPAT: usize = 2;
const S_WBITS: usize = 3;
const S_HASH: usize = 4;
const S_SHIFT: usize = 5;
const S_MASK: usize = 6;
const S_MAXTOK: usize = 7;
const S_DIST3: usize = 8;
const S_FAR: usize = 9;
const S_START: usize = 10;
const S_GOOD: usize = 11;
const S_LAZY: usize = 12;
const S_NICE: usize = 13;
const S_CHAIN: usize = 14;
const S_MINLEN: usize = 15;
const S_ADDK: usize = 16;
const S_ADDN: usize = 17;

/// the fixed vector the estimator returns for streams without references
pub fn no_dictionary_vector(strategy: u32, huff: u32) -> PV {
    let mut v = [0u32; 18];
    v[S_STRATEGY] = strategy; // 2 = HuffOnly, 3 = Store
    v[S_HUFF] = huff;
    v[S_ZCOMPAT] = 1;
    v[S_MAXTOK] = 16386;
    v
}

/// re-establish the couplings `recommend` imposes: (matching type, nice length) is the first table row
/// whose chain bound exceeds the measured depth; zlib_compatible is derived from the flags
pub fn recouple(v: &mut PV) {
    if v[S_STRATEGY] >= 2 {
        *v = no_dictionary_vector(v[S_STRATEGY], v[S_HUFF]);
        return;
    }
    let found = v[S_CHAIN].saturating_sub(1);
    if v[S_ADDK] == 0 {
        let rows: [(u32, u32, u32, u32); 6] = [
            (16, 4, 4, 16),
            (32, 8, 16, 32),
            (128, 8, 16, 128),
            (256, 8, 32, 128),
            (1024, 32, 128, 258),
            (4096, 32, 258, 258),
        ];
        let mut set = (0, 0, 258);
        for (mc, g, l, n) in rows {
            if found < mc {
                set = (g, l, n);
                break;
            }
        }
        v[S_GOOD] = set.0;
        v[S_LAZY] = set.1;
        v[S_NICE] = set.2;
    } else {
        let rows: [(u32, u32); 3] = [(4, 8), (8, 16), (32, 32)];
        let mut nice = 258;
        for (mc, n) in rows {
            if found < mc {
                nice = n;
                break;
            }
        }
        v[S_GOOD] = 0;
        v[S_LAZY] = 0;
        v[S_NICE] = nice;
    }
    if v[S_MINLEN] > 3 {
        v[S_DIST3] = 0;
    }
    v[S_ZCOMPAT] = (v[S_START] == 0 && v[S_FAR] == 0 && (v[S_DIST3] < 4096 || v[S_ADDK] != 0)) as u32;
}

/// a dictionary-using vector drawn from the estimator's image
pub fn random_image_vector(r: &mut Rng) -> PV {
    let mut v = [0u32; 18];
    v[S_STRATEGY] = r.below(2) as u32;
    v[S_HUFF] = r.below(3) as u32;
    v[S_WBITS] = 9 + r.below(7) as u32;
    v[S_MAXTOK] = (1u32 << (7 + r.below(9))) - 1;
    draw_hash(r, &mut v);
    draw_policy(r, &mut v);
    draw_chain(r, &mut v);
    draw_flags(r, &mut v);
    recouple(&mut v);
    v
}

fn draw_hash(r: &mut Rng, v: &mut PV) {
    if r.chance(1, 2) {
        v[S_MINLEN] = 3;
        let h = *r.pick(&[(2u32, 0u32, 0u32), (1, 5, 32767), (1, 4, 2047), (3, 0, 0), (6, 0, 0)]);
        v[S_HASH] = h.0;
        v[S_SHIFT] = h.1;
        v[S_MASK] = h.2;
    } else {
        v[S_MINLEN] = *r.pick(&[4u32, 4, 4, 5, 6, 7, 20, 258]);
        v[S_HASH] = *r.pick(&[4u32, 5, 7]);
        v[S_SHIFT] = 0;
        v[S_MASK] = 0;
    }
}

fn draw_policy(r: &mut Rng, v: &mut PV) {
    v[S_ADDK] = r.below(5) as u32;
    v[S_ADDN] = if v[S_ADDK] == 1 || v[S_ADDK] == 2 {
        *r.pick(&[0u32, 1, 3, 4, 5, 6, 16, 100, 255])
    } else {
        0
    };
}

fn draw_chain(r: &mut Rng, v: &mut PV) {
    v[S_CHAIN] = match r.below(6) {
        0 => 1,
        1 => 1 + r.below(8) as u32,
        2 => 1 + r.below(32) as u32,
        3 => 1 + r.below(256) as u32,
        4 => 4096,
        _ => 1 + r.below(4096) as u32,
    };
}

fn draw_flags(r: &mut Rng, v: &mut PV) {
    v[S_FAR] = r.chance(1, 4) as u32;
    v[S_START] = r.chance(1, 4) as u32;
    v[S_DIST3] = *r.pick(&[0u32, 1, 100, 4095, 4096, 32767, 32768]);
    if r.chance(1, 3) {
        v[S_DIST3] = r.below(32769) as u32;
    }
}

/// re-draw one to four groups of `v` from the image
pub fn perturb(r: &mut Rng, base: &PV) -> (PV, String) {
    let mut v = *base;
    let mut how = String::new();
    if v[S_STRATEGY] >= 2 {
        // from the no-dictionary vector: jump into the dictionary part of the image
        v = random_image_vector(r);
        return (v, "no-dictionary -> random image vector".into());
    }
    for _ in 0..1 + r.usize_below(4) {
        match r.below(10) {
            0 => {
                draw_hash(r, &mut v);
                how.push_str("hash+min_len ");
            }
            1 => {
                draw_policy(r, &mut v);
                how.push_str("add-policy ");
            }
            2 => {
                draw_chain(r, &mut v);
                how.push_str("max_chain ");
            }
            3 => {
                v[S_WBITS] = 9 + r.below(7) as u32;
                how.push_str("window ");
            }
            4 => {
                v[S_MAXTOK] = (1u32 << (7 + r.below(9))) - 1;
                how.push_str("block-size ");
            }
            5 => {
                draw_flags(r, &mut v);
                how.push_str("flags ");
            }
            6 => {
                v[S_STRATEGY] = if v[S_STRATEGY] == 0 { 1 } else { 0 };
                how.push_str("strategy ");
            }
            7 => {
                v[S_HUFF] = r.below(3) as u32;
                how.push_str("huff-strategy ");
            }
            8 => {
                v[S_STRATEGY] = 2 + r.below(2) as u32;
                how.push_str("no-dictionary ");
            }
            _ => {
                // the combination the statement names: 4-byte hash, first-and-last insertion, lazy
                v[S_MINLEN] = 4;
                v[S_HASH] = *r.pick(&[4u32, 5, 7]);
                v[S_SHIFT] = 0;
                v[S_MASK] = 0;
                v[S_ADDK] = *r.pick(&[0u32, 2]);
                v[S_ADDN] = if v[S_ADDK] == 2 { *r.pick(&[3u32, 4, 8]) } else { 0 };
                how.push_str("4-byte-hash/first-and-last ");
            }
        }
    }
    if r.chance(1, 2) {
        recouple(&mut v);
    } else if v[S_STRATEGY] < 2 {
        // product of the per-field ranges: any (matching type, nice length) row with any add policy and
        // any chain depth, flags independent of each other
        let rows: [(u32, u32, u32); 10] = [
            (0, 0, 8),
            (0, 0, 16),
            (0, 0, 32),
            (0, 0, 258),
            (4, 4, 16),
            (8, 16, 32),
            (8, 16, 128),
            (8, 32, 128),
            (32, 128, 258),
            (32, 258, 258),
        ];
        let row = *r.pick(&rows);
        v[S_GOOD] = row.0;
        v[S_LAZY] = row.1;
        v[S_NICE] = row.2;
        v[S_ZCOMPAT] = r.below(2) as u32;
        how.push_str("uncoupled(product) ");
    } else {
        recouple(&mut v);
    }
    (v, how)
}

fn kind_of<T>(o: &Out<T>) -> String {
    match o {
        Out::Ok(_) => "Ok".into(),
        Out::Err(c) => format!("Err({})", c),
        Out::Panic(s) => format!("panic at {}", s),
    }
}

impl C08 {
    pub fn new(tier: Tier, seed: u64, scale: u64) -> C08 {
        C08 {
            tier,
            seed,
            n_gen: scaled(tier.pick(3_000, 30_000), scale),
            n_comp: scaled(tier.pick(4_000, 40_000), scale),
            n_shape: scaled(tier.pick(64, 800), scale),
        }
    }

    /// one (stream, vector) pair; `corrupt` (self-test) flips a byte of the reconstruction
    pub fn judge_pair(d: &[u8], v: &PV, how: &str, label: &str, ctx: &mut Ctx, corrupt: bool) -> (bool, Option<usize>) {
        ctx.count("evaluations");
        let out = crate::api::cur_roundtrip_phased(d, v);
        let case = json!({"label": label, "vector": v.to_vec(), "perturbed": how});
        let triple = format!("hash{}:add{}:{}", v[S_HASH], v[S_ADDK], if v[S_LAZY] > 0 { "lazy" } else { "greedy" });
        match out {
            Out::Ok((mut bytes, consumed, csize, vr)) => {
                if corrupt {
                    if let Some(x) = bytes.last_mut() {
                        *x ^= 4;
                    }
                }
                ctx.count(&format!("triple:{}:ok", triple));
                let mut bad = false;
                if vr != *v {
                    bad = true;
                    ctx.violation(
                        "params_reread_differ",
                        &format!("params_reread_differ|{:?}", v.iter().zip(vr.iter()).position(|(a, b)| a != b)),
                        &format!("parameters read back {:?} differ from the ones written {:?} ({}) on {}", vr, v, how, label),
                        case.clone(),
                        d,
                    );
                }
                if consumed > d.len() || bytes[..] != d[..consumed] {
                    bad = true;
                    ctx.violation(
                        "wrong_bytes",
                        &format!("wrong_bytes|{}|{:?}", digest_hex(d), v),
                        &format!(
                            "Ok under vector {:?} ({}) but the reconstruction ({} bytes) differs from the original prefix ({} bytes) on {}",
                            v,
                            how,
                            bytes.len(),
                            consumed,
                            label
                        ),
                        case,
                        d,
                    );
                }
                (bad, Some(csize))
            }
            Out::Err(c) if c.starts_with("decode:") => {
                // corrections were produced under this vector, so "fails with Err" no longer applies: the
                // reconstruction from them has to succeed
                ctx.count(&format!("triple:{}:decode_err", triple));
                ctx.violation(
                    "reconstruction_failed",
                    &format!("reconstruction_failed|{}", c),
                    &format!(
                        "corrections were produced under vector {:?} ({}) but reconstructing from them returned Err({}) on {}",
                        v, how, &c[7..], label
                    ),
                    case,
                    d,
                );
                (true, None)
            }
            Out::Err(c) => {
                ctx.count(&format!("triple:{}:err", triple));
                ctx.count(&format!("err:{}", c));
                (false, None)
            }
            Out::Panic(s) => {
                ctx.count(&format!("triple:{}:panic", triple));
                ctx.violation(
                    "panic",
                    &format!("panic|{}", s),
                    &format!("panicked at {} under vector {:?} ({}) on {}", s, v, how, label),
                    case,
                    d,
                );
                (true, None)
            }
        }
    }

    pub fn judge_stream(d: &[u8], label: &str, nperturb: usize, r: &mut Rng, ctx: &mut Ctx) {
        ctx.item_bytes(label, d);
        ctx.phase("nonverdict: parse + estimate");
        let est = match cur::estimate(d) {
            Out::Ok(v) => v,
            Out::Err(c) => {
                ctx.count(&format!("estimate:err:{}", c));
                // the estimator gave up: vectors from the image are still legal inputs for a parseable stream
                if !cur::parse_and_rewrite(d).is_ok() {
                    return;
                }
                random_image_vector(r)
            }
            Out::Panic(s) => {
                // C05's business; nothing to perturb
                ctx.count("estimate:panic");
                ctx.note("estimate_panic", json!({"site": s, "how": label}));
                return;
            }
        };
        ctx.count(&format!("estimator:hash{}:add{}:strategy{}", est[S_HASH], est[S_ADDK], est[S_STRATEGY]));
        // sanity of the image description: the estimator's own vector must be a fixed point of recouple
        let mut chk = est;
        recouple(&mut chk);
        if chk != est {
            ctx.count("estimator_vector_outside_described_image");
            ctx.note("estimator_vector_outside_described_image", json!({"est": est.to_vec(), "recoupled": chk.to_vec(), "how": label}));
        }
        ctx.nontrivial(hash64(d));
        ctx.phase("verdict: encode/decode under chosen parameter vectors");
        // the estimator's own vector, cross-checked against the public path
        let (_, own_csize) = Self::judge_pair(d, &est, "estimator's own vector", label, ctx, false);
        ctx.phase("nonverdict: hook cross-check against the public analysis");
        let pubres = cur::analyze(d, false);
        ctx.phase("verdict: encode/decode under chosen parameter vectors");
        if let (Some(cs), Out::Ok(a)) = (own_csize, pubres) {
            ctx.count("hook_crosschecks");
            if a.corr.len() != cs {
                ctx.count("hook_crosscheck_failed");
                ctx.note("hook_crosscheck_failed", json!({"hook_corrections": cs, "public_corrections": a.corr.len(), "how": label}));
            }
        }
        for _ in 0..nperturb {
            let (v, how) = perturb(r, &est);
            if v == est {
                continue;
            }
            Self::judge_pair(d, &v, &how, label, ctx, false);
            ctx.count("perturbed_vectors");
        }
        if ctx.want_sample() {
            ctx.sample(json!({"input": hex_prefix(d, 32), "len": d.len(), "how": label, "estimator_vector": est.to_vec()}));
        }
    }
}

impl Monitor for C08 {
    fn ncases(&self) -> u64 {
        self.n_gen + self.n_comp + self.n_shape
    }

    fn cpu_budget_s(&self) -> u64 {
        300
    }

    fn run_case(&mut self, k: u64, ctx: &mut Ctx) {
        let max_plain = 64 * 1024;
        let np = self.tier.pick(12, 50);
        if k < self.n_gen {
            let mut r = Rng::derive(self.seed, 0x0801, k, 0);
            match streams::generator_stream(&mut r, max_plain) {
                Some(s) => Self::judge_stream(&s.bytes, &format!("generator: {}", s.recipe), np, &mut r, ctx),
                None => ctx.count("generator_rejected"),
            }
        } else if k < self.n_gen + self.n_comp {
            let mut r = Rng::derive(self.seed, 0x0802, k - self.n_gen, 0);
            let s = if k % 8 == 7 { streams::boundary_dense_stream(&mut r, max_plain) } else { streams::compressor_stream(&mut r, max_plain, None) };
            Self::judge_stream(
                &s.bytes,
                &format!("{}: {}", streams::SOURCE_NAMES[s.source], s.recipe),
                np,
                &mut r,
                ctx,
            );
        } else {
            let idx = k - self.n_gen - self.n_comp;
            let mut r = Rng::derive(self.seed, 0x0803, idx, 0);
            let (name, d, p) = special::shape(idx, &mut r);
            if p.len() > 300_000 {
                return;
            }
            Self::judge_stream(&d, &format!("shape: {}", name), np.min(12), &mut r, ctx);
        }
    }

    fn can_judge_file(&self, _rec: &serde_json::Value) -> bool {
        false
    }

    fn judge_file(&mut self, bytes: &[u8], ctx: &mut Ctx) {
        let mut r = Rng::new(self.seed);
        Self::judge_stream(bytes, "file", 200, &mut r, ctx);
    }

    fn selftest(&mut self) -> Result<String, String> {
        let mut r = Rng::new(31);
        for _ in 0..20 {
            let s = streams::compressor_stream(&mut r, 3000, Some(0));
            if let Out::Ok(v) = cur::estimate(&s.bytes) {
                if !cur::roundtrip_with_params(&s.bytes, &v).is_ok() {
                    continue;
                }
                let mut c = Ctx::scratch("C08");
                let (bad, _) = Self::judge_pair(&s.bytes, &v, "selftest", "selftest", &mut c, true);
                return if bad {
                    Ok("a reconstruction with one flipped bit was reported as wrong_bytes".into())
                } else {
                    Err("corrupted reconstruction was not reported".into())
                };
            }
        }
        Ok("skipped: no stream could be estimated".into())
    }
}

//! C06 — embedded streams in supported wrappers are found and expanded, not copied.
//!
//! Premise (checked per case): the raw stream S is accepted by `decompress_deflate_stream(S, true)`
//! standing alone with |P| > 1024 (for PNG: IDAT payloads total > 1024), and no other accepted stream
//! that starts in the bytes in front of the wrapper overlaps S's span (decided with `scan_spans`).
//! Refuting observation: premise holds and P is not a contiguous substring of `expand_zlib_chunks(F)`.

use super::{scaled, Monitor};
use crate::api::{cur, Out};
use crate::cparse;
use crate::ctx::{hex_prefix, Ctx, Tier};
use crate::rng::{hash64, Rng};
use crate::streams::{self, Stream};
use crate::wrap;
use serde_json::json;

pub struct C06 {
    tier: Tier,
    seed: u64,
    n: u64,
}

impl C06 {
    pub fn new(tier: Tier, seed: u64, scale: u64) -> C06 {
        wrap::ODD_PNG_HEADERS.store(false, std::sync::atomic::Ordering::Relaxed);
        C06 {
            tier,
            seed,
            n: scaled(tier.pick(6_000, 150_000), scale),
        }
    }

    /// judge one file that embeds stream S (plaintext `p`) at [span_start, span_start+span_len)
    /// behind a wrapper that starts at `wrapper_start`
    #[allow(clippy::too_many_arguments)]
    pub fn judge(
        f: &[u8],
        p: &[u8],
        wrapper_start: usize,
        span_start: usize,
        span_len: usize,
        label: &str,
        ctx: &mut Ctx,
        hide: bool,
    ) -> bool {
        ctx.item_bytes(label, f);
        ctx.count("evaluations");
        ctx.phase("nonverdict: expansion (totality is C01's verdict)");
        let exp = match cur::expand(f) {
            Out::Ok(v) => v,
            _ => {
                // totality is C01's business; here it only means nothing can be judged
                ctx.count("expand_failed_not_judged");
                return false;
            }
        };
        let hay: &[u8] = if hide { &exp[..exp.len().min(8)] } else { &exp };
        let found = cparse::find(hay, p).is_some();
        let in_file_already = cparse::find(f, p).is_some();
        if found {
            ctx.count("plaintext_found");
            if !in_file_already {
                ctx.nontrivial(hash64(f));
                if ctx.want_sample() {
                    ctx.sample(json!({"file": hex_prefix(f, 32), "len": f.len(), "how": label,
                        "plain_len": p.len(), "expanded_len": exp.len()}));
                }
            } else {
                ctx.count("plaintext_already_verbatim_in_file");
            }
            return false;
        }
        // not found: is the premise about the surrounding bytes met?
        let mut shadowed = false;
        let mut spans_txt = String::new();
        if let Out::Ok(spans) = cur::scan_spans(f) {
            // where would probes that start at signature positions in front of the wrapper look for data?
            // (computed from the wrapper formats, independently of the library)
            let targets: Vec<(usize, bool)> = (0..wrapper_start.min(f.len().saturating_sub(1)))
                .filter_map(|i| wrap::probe_target(f, i))
                .collect();
            let mut at = 0usize;
            for (kind, len, _pl) in &spans {
                if *kind != 0 {
                    let (a, b) = (at, at + len);
                    // overlapping the embedding = the wrapper header or the stream itself: such a stream
                    // swallows the signature or the data the scanner would need
                    let overlaps = a < span_start + span_len && b > wrapper_start;
                    let from_prefix = a < wrapper_start || targets.contains(&(a, *kind == 2));
                    if overlaps && from_prefix {
                        shadowed = true;
                    }
                }
                at += len;
            }
            spans_txt = format!("{:?}", spans.iter().take(12).collect::<Vec<_>>());
        }
        if shadowed {
            ctx.count("premise_not_met:shadowed_by_stream_in_prefix");
            return false;
        }
        ctx.nontrivial(hash64(f));
        ctx.violation(
            "not_expanded",
            &format!("not_expanded|{}", label.split(" | ").next().unwrap_or(label)),
            &format!(
                "stream accepted on its own ({} bytes plaintext) embedded at {}..{} is not expanded: plaintext absent from the {}-byte expansion of the {}-byte file; scanner chunks {}; {}",
                p.len(),
                span_start,
                span_start + span_len,
                exp.len(),
                f.len(),
                spans_txt,
                label
            ),
            json!({"label": label, "span_start": span_start, "span_len": span_len, "plain_len": p.len()}),
            f,
        );
        true
    }
}

fn draw_stream(r: &mut Rng, max_plain: usize, ctx: &mut Ctx) -> Option<Stream> {
    for _ in 0..8 {
        let s = match r.below(10) {
            0..=2 => match streams::generator_stream(r, max_plain) {
                Some(s) => s,
                None => {
                    ctx.count("generator_rejected");
                    continue;
                }
            },
            _ => streams::compressor_stream(r, max_plain, None),
        };
        if s.plain.len() <= 1024 {
            continue;
        }
        // premise: accepted on its own with verify=true, and the plaintext is what we think it is
        ctx.phase("nonverdict: premise check (analysis of the stream alone)");
        match cur::analyze(&s.bytes, true) {
            Out::Ok(a) if a.plain == s.plain && a.size == s.bytes.len() => return Some(s),
            _ => {
                ctx.count("premise_not_met:stream_not_accepted_alone");
                continue;
            }
        }
    }
    None
}

impl Monitor for C06 {
    fn ncases(&self) -> u64 {
        self.n
    }

    fn cpu_budget_s(&self) -> u64 {
        120
    }

    fn run_case(&mut self, k: u64, ctx: &mut Ctx) {
        let mut r = Rng::derive(self.seed, 0x0601, k, 0);
        let max_plain = self.tier.pick(100_000, 300_000);
        let s = match draw_stream(&mut r, max_plain, ctx) {
            Some(s) => s,
            None => {
                ctx.count("no_premise_stream_drawn");
                return;
            }
        };
        ctx.count(&format!("stream_source:{}", streams::SOURCE_NAMES[s.source]));
        for w in 0..4u8 {
            let hostile = r.chance(1, 2);
            let (wb, off, span, variant) = if w == 3 && r.chance(1, 8) {
                // a legal PNG shape the container format cannot represent (known finding)
                let z = wrap::zlib_wrap(&s.bytes, &s.plain, 0x9C);
                let c = 1 + r.usize_below(z.len() - 1);
                let v = wrap::png_wrap(&mut r, &z, &[c, c], true, &[]);
                (v, 33, z.len() + 36, "png zero-length IDAT chunk inside the run".to_string())
            } else if w != 2 && r.chance(1, 6) {
                // the wrapped stream as the data of a STORED (method 0) ZIP entry, e.g. a .gz or .png inside
                // an archive: the scanner has to look inside the stored data
                let (inner, off, span, variant) = wrap::wrap_stream(&mut r, &s, w, false);
                let name_len = r.usize_below(20);
                let mut v = vec![0x50, 0x4b, 0x03, 0x04, 10, 0, 0, 0, 0, 0];
                v.extend_from_slice(&(r.next() as u32).to_le_bytes());
                v.extend_from_slice(&wrap::crc32(&inner).to_le_bytes());
                v.extend_from_slice(&(inner.len() as u32).to_le_bytes());
                v.extend_from_slice(&(inner.len() as u32).to_le_bytes());
                v.extend_from_slice(&(name_len as u16).to_le_bytes());
                v.extend_from_slice(&0u16.to_le_bytes());
                v.extend((0..name_len).map(|_| b'a' + r.below(26) as u8));
                let hdr = v.len();
                v.extend_from_slice(&inner);
                (v, hdr + off, span, format!("stored-zip-entry around [{}]", variant))
            } else {
                wrap::wrap_stream(&mut r, &s, w, hostile)
            };
            if w == 3 {
                // IDAT payload total = zlib stream length = raw + 6
                if s.bytes.len() + 6 <= 1024 {
                    // not "IDAT chunks totalling more than 1024 bytes" - but if the whole zlib stream sits in ONE
                    // chunk, the file still embeds S behind a zlib header (the chunk header in front of it and the
                    // CRC behind it are arbitrary bytes), and the zlib clause of the statement applies
                    if variant.contains("idat_chunks=1 ") {
                        ctx.count("idat_total_le_1024:single_chunk_judged_under_the_zlib_clause");
                    } else {
                        ctx.count("premise_not_met:idat_total_le_1024");
                        continue;
                    }
                }
            }
            let mut pre_n = *r.pick(&[0usize, 0, 1, 3, 4, 17, 300, 4096]);
            if r.chance(1, 6) {
                // directed alignment: the wrapper's two signature bytes sit on or next to a multiple of 64 KiB
                // (the last byte of one buffer-sized window and the first byte of the next, and neighbours)
                let sig_off = if w == 3 { off + 4 } else { 0 };
                let t = (1 + r.usize_below(2)) * 65536;
                let d = *r.pick(&[1usize, 1, 1, 0, 2, 3]);
                pre_n = (t - d).saturating_sub(sig_off);
                ctx.count("directed:signature_next_to_64k_multiple");
            }
            let pre = wrap::junk(&mut r, pre_n, hostile);
            let suf_n = *r.pick(&[0usize, 0, 1, 8, 100, 4096]);
            let mut suf = wrap::junk(&mut r, suf_n, hostile);
            if w == 3 && wrap::starts_with_valid_idat(&suf) {
                // a well-formed IDAT chunk directly behind the run would be part of the run: the
                // stream would then no longer be "the payload of consecutive IDAT chunks"
                ctx.count("png_suffix_separated_from_run");
                suf.insert(0, 0);
            }
            let mut f = pre.clone();
            let wrapper_start = f.len();
            f.extend_from_slice(&wb);
            f.extend_from_slice(&suf);
            let label = format!(
                "{} | junk={} pre={} suf={} | {}: {}",
                variant,
                if hostile { "hostile" } else { "clean" },
                pre_n,
                suf_n,
                streams::SOURCE_NAMES[s.source],
                s.recipe
            );
            ctx.count(&format!("wrapper:{}", wrap::WRAPPER_NAMES[w as usize]));
            Self::judge(&f, &s.plain, wrapper_start, wrapper_start + off, span, &label, ctx, false);
        }
        // negatives: the thresholds are where the property says (reported, never judged)
        if r.chance(1, 4) {
            let mut f = wrap::zlib_wrap(&s.bytes, &s.plain, 0x9D);
            f.extend(wrap::junk_clean(&mut r, 8));
            if let Out::Ok(exp) = cur::expand(&f) {
                let found = cparse::find(&exp, &s.plain).is_some() && cparse::find(&f, &s.plain).is_none();
                ctx.count(if found { "negative:78_9D_expanded" } else { "negative:78_9D_copied" });
            }
            let o = wrap::ZipOpts {
                size_mode: 0,
                name_len: 4,
                extra_len: 0,
                data_descriptor: false,
                central_dir: false,
                hostile_fields: false,
            };
            let mut z = wrap::zip_wrap(&mut r, &s.bytes, &s.plain, &o);
            z[8] = 9; // method 9 (deflate64): not supported
            if let Out::Ok(exp) = cur::expand(&z) {
                let found = cparse::find(&exp, &s.plain).is_some() && cparse::find(&z, &s.plain).is_none();
                ctx.count(if found { "negative:zip_method9_expanded" } else { "negative:zip_method9_copied" });
            }
        }
    }

    fn selftest(&mut self) -> Result<String, String> {
        // the substring oracle must fire when the expansion is hidden from it
        let mut r = Rng::new(19);
        let mut c = Ctx::scratch("C06");
        for _ in 0..20 {
            let s = streams::compressor_stream(&mut r, 6000, Some(0));
            if s.plain.len() <= 1024 || cparse::find(&s.bytes, &s.plain).is_some() {
                continue;
            }
            let f = wrap::zlib_wrap(&s.bytes, &s.plain, 0x9C);
            return if Self::judge(&f, &s.plain, 0, 2, s.bytes.len(), "selftest", &mut c, true) {
                Ok("with the expansion hidden, the absent plaintext was reported as not_expanded".into())
            } else {
                Err("hidden expansion was not reported".into())
            };
        }
        Ok("skipped: no suitable stream".into())
    }
}

//! C04 — data written by the reference build is still reconstructed by the current build.
//!
//! Two frozen writer crates are linked next to the current build: ref0 = the pinned sources, ref1 =
//! pinned + the recorded fix commits ("the reference build"). Refuting observation: the version
//! constants of the current tree equal the writer's, the writer accepted the input (premise), and the
//! current build's recompress_deflate_stream / recreated_zlib_chunks does not reproduce the original
//! bytes from what the writer produced.

use super::{scaled, Monitor};
use crate::api::{cur, ref0, ref1, Analysis, Out};
use crate::ctx::{hex_prefix, Ctx, Tier};
use crate::rng::{digest_hex, hash64, Rng};
use crate::{special, streams, wrap};
use serde_json::json;

pub struct C04 {
    tier: Tier,
    seed: u64,
    n_streams: u64,
    n_files: u64,
}

fn kind_of<T>(o: &Out<T>) -> String {
    match o {
        Out::Ok(_) => "Ok".into(),
        Out::Err(c) => format!("Err({})", c),
        Out::Panic(s) => format!("panic at {}", s),
    }
}

/// (wrapper version, file version) equal between the current tree and a writer?
pub fn versions_equal() -> (bool, String) {
    let c = cur::versions();
    let r0 = ref0::versions();
    let r1 = ref1::versions();
    (
        c == r0 && c == r1,
        format!("current (wrapper,file)={:?} ref0={:?} ref1={:?}", c, r0, r1),
    )
}

impl C04 {
    pub fn new(tier: Tier, seed: u64, scale: u64) -> C04 {
        C04 {
            tier,
            seed,
            n_streams: scaled(tier.pick(15_000, 400_000), scale),
            n_files: scaled(tier.pick(4_000, 100_000), scale),
        }
    }

    fn judge_stream_writer(d: &[u8], writer: &str, w: Out<Analysis>, label: &str, ctx: &mut Ctx, corrupt: bool) -> bool {
        let a = match w {
            Out::Ok(a) => a,
            other => {
                ctx.count(&format!("{}:stream_not_accepted:{}", writer, other.kind().split(':').next().unwrap_or("")));
                return false;
            }
        };
        ctx.count("evaluations");
        ctx.count(&format!("{}:streams_cross_decoded", writer));
        ctx.phase("verdict: current build reconstructs what the reference wrote");
        let mut rec = cur::reconstruct(&a.plain, &a.corr);
        if corrupt {
            if let Out::Ok(v) = &mut rec {
                if let Some(x) = v.first_mut() {
                    *x ^= 1;
                }
            }
        }
        match &rec {
            Out::Ok(v) if a.size <= d.len() && v[..] == d[..a.size] => {
                ctx.nontrivial(hash64(&d[..a.size]) ^ writer.len() as u64);
                false
            }
            other => {
                ctx.violation(
                    "stream_not_reproduced",
                    &format!("stream_not_reproduced|{}|{}", writer, match other { Out::Panic(s) => format!("panic|{}", s), Out::Err(c) => format!("err:{}", c), _ => "bytes".into() }),
                    &format!(
                        "corrections written by {} ({} bytes) for a stream it accepted are not turned back into the original by the current build: {} on {}",
                        writer,
                        a.corr.len(),
                        match other {
                            Out::Ok(v) => format!("Ok({} bytes) != original prefix of {} bytes", v.len(), a.size),
                            x => kind_of(x),
                        },
                        label
                    ),
                    json!({"label": label, "writer": writer}),
                    d,
                );
                true
            }
        }
    }

    pub fn judge_stream(d: &[u8], label: &str, ctx: &mut Ctx, corrupt: bool) -> bool {
        ctx.item_bytes(label, d);
        ctx.phase("nonverdict: analysis by the frozen reference build ref1");
        let w1 = ref1::analyze(d, true);
        let b1 = Self::judge_stream_writer(d, "ref1", w1, label, ctx, corrupt);
        ctx.phase("nonverdict: analysis by the frozen pinned build ref0 (has known defects)");
        let w0 = ref0::analyze(d, true);
        let b0 = Self::judge_stream_writer(d, "ref0", w0, label, ctx, false);
        b0 || b1
    }

    fn judge_file_writer(f: &[u8], writer: &str, e: Out<Vec<u8>>, own: impl Fn(&[u8]) -> Out<Vec<u8>>, label: &str, ctx: &mut Ctx) -> bool {
        let e = match e {
            Out::Ok(e) => e,
            _ => {
                ctx.count(&format!("{}:file_not_accepted", writer));
                return false;
            }
        };
        // a container the independent parser cannot walk (the pinned build writes such containers for
        // inputs it mishandles) is not worth handing to any reader: its length fields are garbage
        if crate::cparse::parse(&e).is_err() {
            ctx.count(&format!("{}:file_not_accepted(container_malformed)", writer));
            return false;
        }
        // premise: the writer can read back its own container
        ctx.phase("nonverdict: the reference build reads back its own container");
        match own(&e) {
            Out::Ok(v) if v[..] == f[..] => {}
            _ => {
                ctx.count(&format!("{}:file_not_accepted(own_roundtrip_fails)", writer));
                return false;
            }
        }
        ctx.count("evaluations");
        ctx.count(&format!("{}:files_cross_decoded", writer));
        ctx.phase("verdict: current build recreates the file from the reference's container");
        let rec = cur::recreate(&e);
        match &rec {
            Out::Ok(v) if v[..] == f[..] => {
                if wrap::count_signatures(f) > 0 {
                    ctx.nontrivial(hash64(f) ^ writer.len() as u64);
                }
                false
            }
            other => {
                ctx.violation(
                    "file_not_reproduced",
                    &format!("file_not_reproduced|{}|{}", writer, match other { Out::Panic(s) => format!("panic|{}", s), Out::Err(c) => format!("err:{}", c), _ => "bytes".into() }),
                    &format!(
                        "container written by {} ({} bytes) is not turned back into the original {}-byte file by the current build: {} on {}",
                        writer,
                        e.len(),
                        f.len(),
                        match other {
                            Out::Ok(v) => format!("Ok({} bytes, different)", v.len()),
                            x => kind_of(x),
                        },
                        label
                    ),
                    json!({"label": label, "writer": writer, "input_digest": digest_hex(f)}),
                    f,
                );
                true
            }
        }
    }

    pub fn judge_file_both(f: &[u8], label: &str, ctx: &mut Ctx) -> bool {
        ctx.item_bytes(label, f);
        ctx.phase("nonverdict: expansion by the frozen reference build ref1");
        let e1 = ref1::expand(f);
        let b1 = Self::judge_file_writer(f, "ref1", e1, |e| ref1::recreate(e), label, ctx);
        ctx.phase("nonverdict: expansion by the frozen pinned build ref0 (has known defects)");
        let e0 = ref0::expand(f);
        let b0 = Self::judge_file_writer(f, "ref0", e0, |e| ref0::recreate(e), label, ctx);
        if ctx.want_sample() {
            ctx.sample(json!({"file": hex_prefix(f, 32), "len": f.len(), "how": label}));
        }
        b0 || b1
    }
}

impl Monitor for C04 {
    fn ncases(&self) -> u64 {
        1 + self.n_streams + self.n_files
    }

    fn cpu_budget_s(&self) -> u64 {
        180
    }

    fn run_case(&mut self, k: u64, ctx: &mut Ctx) {
        let (eq, txt) = versions_equal();
        if k == 0 {
            ctx.note("versions", json!(txt));
            ctx.count("evaluations");
        }
        if !eq {
            // an announced format change: cross-decoding is not required by the property
            if k == 0 {
                ctx.count("premise_false_version_bumped");
            }
            return;
        }
        if k == 0 {
            return;
        }
        let k = k - 1;
        let max_plain = self.tier.pick(150_000, 400_000);
        if k < self.n_streams {
            let mut r = Rng::derive(self.seed, 0x0401, k, 0);
            let (label, d) = match if k % 40 == 39 { 99 } else { k % 20 } {
                99 => {
                    let s = streams::boundary_dense_stream(&mut r, 150_000);
                    (s.recipe.clone(), s.bytes)
                }
                0 => {
                    let (name, d, _) = special::shape(k / 20, &mut r);
                    (format!("shape: {}", name), d)
                }
                1..=7 => match streams::generator_stream(&mut r, max_plain) {
                    Some(s) => (format!("generator: {}", s.recipe), s.bytes),
                    None => {
                        ctx.count("generator_rejected");
                        return;
                    }
                },
                _ => {
                    let s = streams::compressor_stream(&mut r, max_plain, None);
                    (format!("{}: {}", streams::SOURCE_NAMES[s.source], s.recipe), s.bytes)
                }
            };
            Self::judge_stream(&d, &label, ctx, false);
            if r.chance(1, 3) {
                let (how, m) = streams::mutate(&mut r, &d, None);
                Self::judge_stream(&m, &format!("{} <- {}", how, label), ctx, false);
            }
            return;
        }
        let k = k - self.n_streams;
        let mut r = Rng::derive(self.seed, 0x0402, k, 0);
        let g = if k % 12 == 0 { wrap::edge_case(k / 12, &mut r) } else { wrap::assemble(&mut r, max_plain.min(100_000), 3) };
        Self::judge_file_both(&g.bytes, &g.recipe, ctx);
        if r.chance(1, 3) {
            let (how, m) = streams::mutate(&mut r, &g.bytes, None);
            Self::judge_file_both(&m, &format!("{} <- {}", how, g.recipe), ctx);
        }
    }

    fn can_judge_file(&self, _rec: &serde_json::Value) -> bool {
        false
    }

    fn selftest(&mut self) -> Result<String, String> {
        let mut r = Rng::new(37);
        for _ in 0..20 {
            let s = streams::compressor_stream(&mut r, 3000, Some(0));
            if !ref1::analyze(&s.bytes, true).is_ok() {
                continue;
            }
            let mut c = Ctx::scratch("C04");
            return if Self::judge_stream(&s.bytes, "selftest", &mut c, true) {
                Ok("a cross-decoded stream with one flipped bit was reported".into())
            } else {
                Err("corrupted cross-decoding was not reported".into())
            };
        }
        Ok("skipped: reference accepted nothing".into())
    }
}

//! C13 — reconstruction tolerates fragmented I/O and fails cleanly on I/O errors.
//!
//! Instrumented `Read`/`Write` objects fragment reads and writes and inject one error at a chosen
//! absolute offset. Refuting observations: without an injected error, a result that is not Ok or a
//! sink that differs from F; with an injected error that was actually delivered: a panic, Ok
//! (except for ErrorKind::Interrupted, which read_exact/write_all legitimately retry), or sink
//! contents that are not a prefix of F.

use super::{scaled, Monitor};
use crate::api::{cur, Out};
use crate::cparse;
use crate::ctx::{hex_prefix, Ctx, Tier};
use crate::rng::{digest_hex, hash64, Rng};
use crate::wrap;
use serde_json::json;
use std::io::{self, ErrorKind, Read, Write};

#[derive(Clone, Copy, Debug)]
pub enum Frag {
    Whole,
    Const(usize),
    Random(usize),
}

#[derive(Clone, Copy, Debug, PartialEq)]
pub enum Fault {
    None,
    Err(ErrorKind),
    /// writer only: accept zero bytes
    Zero,
}

pub const KINDS: [ErrorKind; 6] = [
    ErrorKind::Other,
    ErrorKind::BrokenPipe,
    ErrorKind::UnexpectedEof,
    ErrorKind::WouldBlock,
    ErrorKind::TimedOut,
    ErrorKind::Interrupted,
];

/// the injected error in one of four shapes, chosen by the call counter: with a short payload; "simple" (kind
/// only, no message, no OS code); with a long message of multi-byte characters at every alignment; with a
/// long ASCII message
fn injected(kind: ErrorKind, calls: u64, what: &str) -> io::Error {
    match calls % 4 {
        0 => io::Error::new(kind, format!("injected {} fault", what)),
        1 => io::Error::from(kind),
        2 => {
            let j = ((calls / 4) % 4) as usize;
            let ch = if (calls / 16) % 2 == 0 { "\u{dc}" } else { "\u{20ac}" };
            io::Error::new(kind, format!("{}{}", "a".repeat(j), ch.repeat(300)))
        }
        _ => io::Error::new(kind, format!("injected {} fault {}", what, "x".repeat(1000))),
    }
}

pub struct FragReader<'a> {
    /// deliver the fault once and then carry on normally (a transient failure), instead of failing every
    /// later call as well; ErrorKind::Interrupted is always transient
    pub transient: bool,
    data: &'a [u8],
    pos: usize,
    frag: Frag,
    rng: Rng,
    fail_at: usize,
    fault: Fault,
    pub delivered_fault: bool,
    pub calls: u64,
}

impl<'a> FragReader<'a> {
    pub fn new(data: &'a [u8], frag: Frag, seed: u64, fail_at: usize, fault: Fault) -> Self {
        FragReader {
            transient: seed % 2 == 1,
            data,
            pos: 0,
            frag,
            rng: Rng::new(seed),
            fail_at,
            fault,
            delivered_fault: false,
            calls: 0,
        }
    }
}

impl<'a> Read for FragReader<'a> {
    fn read(&mut self, buf: &mut [u8]) -> io::Result<usize> {
        self.calls += 1;
        if buf.is_empty() {
            return Ok(0);
        }
        if let Fault::Err(kind) = self.fault {
            if self.pos >= self.fail_at && (!self.delivered_fault || (kind != ErrorKind::Interrupted && !self.transient)) {
                self.delivered_fault = true;
                // both shapes of io::Error: with a payload and "simple" (kind only, no message, no OS code)
                return Err(injected(kind, self.calls, "read"));
            }
        }
        let mut n = buf.len().min(self.data.len() - self.pos);
        n = match self.frag {
            Frag::Whole => n,
            Frag::Const(k) => n.min(k),
            Frag::Random(k) => n.min(1 + self.rng.usize_below(k)),
        };
        if self.fault != Fault::None && self.pos < self.fail_at {
            n = n.min(self.fail_at - self.pos);
        }
        buf[..n].copy_from_slice(&self.data[self.pos..self.pos + n]);
        self.pos += n;
        Ok(n)
    }
}

pub struct FragWriter {
    pub transient: bool,
    pub accepted: Vec<u8>,
    frag: Frag,
    rng: Rng,
    fail_at: usize,
    fault: Fault,
    pub delivered_fault: bool,
    pub calls: u64,
}

impl FragWriter {
    pub fn new(frag: Frag, seed: u64, fail_at: usize, fault: Fault) -> Self {
        FragWriter {
            transient: seed % 2 == 1,
            accepted: vec![],
            frag,
            rng: Rng::new(seed),
            fail_at,
            fault,
            delivered_fault: false,
            calls: 0,
        }
    }
}

impl FragWriter {
    /// how many of `avail` offered bytes this call accepts (or the injected fault)
    fn accept(&mut self, avail: usize) -> io::Result<usize> {
        self.calls += 1;
        if avail == 0 {
            return Ok(0);
        }
        if self.fault != Fault::None && self.accepted.len() >= self.fail_at {
            match self.fault {
                Fault::Err(kind) => {
                    if !self.delivered_fault || (kind != ErrorKind::Interrupted && !self.transient) {
                        self.delivered_fault = true;
                        return Err(injected(kind, self.calls, "write"));
                    }
                }
                Fault::Zero => {
                    if !self.delivered_fault || !self.transient {
                        self.delivered_fault = true;
                        return Ok(0);
                    }
                }
                Fault::None => {}
            }
        }
        let mut n = avail;
        n = match self.frag {
            Frag::Whole => n,
            Frag::Const(k) => n.min(k),
            Frag::Random(k) => n.min(1 + self.rng.usize_below(k)),
        };
        if self.fault != Fault::None && self.accepted.len() < self.fail_at {
            n = n.min(self.fail_at - self.accepted.len());
        }
        Ok(n)
    }
}

impl Write for FragWriter {
    fn write(&mut self, buf: &[u8]) -> io::Result<usize> {
        let n = self.accept(buf.len())?;
        self.accepted.extend_from_slice(&buf[..n]);
        Ok(n)
    }
    /// a sink with gather writes of its own (as pipes, sockets and files have): a partial count may end in
    /// the middle of any of the slices
    fn write_vectored(&mut self, bufs: &[io::IoSlice<'_>]) -> io::Result<usize> {
        let total: usize = bufs.iter().map(|b| b.len()).sum();
        let n = self.accept(total)?;
        let mut left = n;
        for b in bufs {
            let l = b.len().min(left);
            self.accepted.extend_from_slice(&b[..l]);
            left -= l;
            if left == 0 {
                break;
            }
        }
        Ok(n)
    }
    fn flush(&mut self) -> io::Result<()> {
        Ok(())
    }
}

pub struct C13 {
    tier: Tier,
    seed: u64,
    n: u64,
}

pub struct Attempt {
    pub rfrag: Frag,
    pub wfrag: Frag,
    pub rfail: usize,
    pub rfault: Fault,
    pub wfail: usize,
    pub wfault: Fault,
}

impl C13 {
    pub fn new(tier: Tier, seed: u64, scale: u64) -> C13 {
        C13 {
            tier,
            seed,
            n: scaled(tier.pick(1_500, 20_000), scale),
        }
    }

    /// one reconstruction attempt under instrumented I/O; returns true if a violation was reported.
    /// `tamper`: self-test only, appends a byte to what the sink accepted.
    pub fn attempt(container: &[u8], f: &[u8], a: &Attempt, label: &str, seed: u64, ctx: &mut Ctx, tamper: bool) -> bool {
        ctx.count("evaluations");
        let mut rd = FragReader::new(container, a.rfrag, seed, a.rfail, a.rfault);
        let mut wr = FragWriter::new(a.wfrag, seed ^ 0x55, a.wfail, a.wfault);
        let out = cur::recreate_io(&mut rd, &mut wr);
        if tamper {
            wr.accepted.push(0xEE);
        }
        let injected = rd.delivered_fault || wr.delivered_fault;
        let interrupted = matches!(a.rfault, Fault::Err(ErrorKind::Interrupted)) && rd.delivered_fault
            || matches!(a.wfault, Fault::Err(ErrorKind::Interrupted)) && wr.delivered_fault;
        let desc = format!(
            "read {:?} fault {:?}@{} (delivered={}), write {:?} fault {:?}@{} (delivered={})",
            a.rfrag, a.rfault, a.rfail, rd.delivered_fault, a.wfrag, a.wfault, a.wfail, wr.delivered_fault
        );
        let case = json!({"label": label, "io": desc});
        let is_prefix = wr.accepted.len() <= f.len() && wr.accepted[..] == f[..wr.accepted.len()];
        let mut bad = false;
        let sigtail = format!(
            "{}|{}",
            if rd.delivered_fault { "read" } else if wr.delivered_fault { "write" } else { "nofault" },
            digest_hex(container)
        );
        match &out {
            Out::Panic(s) => {
                bad = true;
                ctx.violation(
                    "panic",
                    &format!("panic|{}", s),
                    &format!("recreated_zlib_chunks panicked at {} under {} on {}", s, desc, label),
                    case.clone(),
                    container,
                );
            }
            Out::Ok(()) => {
                if injected && !interrupted {
                    bad = true;
                    ctx.violation(
                        "ok_despite_io_error",
                        &format!("ok_despite_io_error|{}", sigtail),
                        &format!("an I/O error was delivered but the call returned Ok under {} on {}", desc, label),
                        case.clone(),
                        container,
                    );
                } else if wr.accepted[..] != f[..] {
                    bad = true;
                    ctx.violation(
                        "fragmented_output_differs",
                        &format!("fragmented_output_differs|{}", sigtail),
                        &format!(
                            "returned Ok but the sink holds {} bytes that are not the original {} bytes under {} on {}",
                            wr.accepted.len(),
                            f.len(),
                            desc,
                            label
                        ),
                        case.clone(),
                        container,
                    );
                }
            }
            Out::Err(c) => {
                if !injected {
                    bad = true;
                    ctx.violation(
                        "err_without_io_error",
                        &format!("err_without_io_error|{}|{}", c, sigtail),
                        &format!("no I/O error was injected but the call returned Err({}) under {} on {}", c, desc, label),
                        case.clone(),
                        container,
                    );
                }
            }
        }
        if !is_prefix && !bad {
            bad = true;
            ctx.violation(
                "sink_not_prefix",
                &format!("sink_not_prefix|{}", sigtail),
                &format!(
                    "bytes accepted by the sink ({}) are not a prefix of the original file ({} bytes) under {} on {}",
                    wr.accepted.len(),
                    f.len(),
                    desc,
                    label
                ),
                case,
                container,
            );
        }
        ctx.count(match (&out, injected) {
            (Out::Ok(_), false) => "result:ok_no_fault",
            (Out::Ok(_), true) => "result:ok_interrupted_retried",
            (Out::Err(_), true) => "result:err_on_fault",
            (Out::Err(_), false) => "result:err_no_fault",
            (Out::Panic(_), _) => "result:panic",
        });
        ctx.max("read_calls_in_one_attempt", rd.calls);
        bad
    }
}

fn frag_patterns(r: &mut Rng) -> Vec<Frag> {
    vec![
        Frag::Whole,
        Frag::Const(1),
        Frag::Const(2),
        Frag::Const(3),
        Frag::Const(7),
        Frag::Const(4096),
        Frag::Random(4),
        Frag::Random(64),
        Frag::Random(1 + r.usize_below(70000)),
    ]
}

impl Monitor for C13 {
    fn ncases(&self) -> u64 {
        self.n
    }

    fn cpu_budget_s(&self) -> u64 {
        300
    }

    fn run_case(&mut self, k: u64, ctx: &mut Ctx) {
        let mut r = Rng::derive(self.seed, 0x1301, k, 0);
        // a file, its container
        let g = match k % 8 {
            0 => {
                // literal chunk > 64 KiB so that the 65536-byte copy loop iterates
                let n = 65536 + r.usize_below(140_000);
                let mut b = wrap::junk_clean(&mut r, n);
                let g2 = wrap::assemble(&mut r, 4000, 2);
                b.extend(g2.bytes);
                wrap::GenFile {
                    bytes: b,
                    recipe: format!("{}B clean junk + {}", n, g2.recipe),
                    embedded: g2.embedded,
                }
            }
            1 => wrap::edge_case(k / 8, &mut r),
            _ => wrap::assemble(&mut r, self.tier.pick(6000, 30000), 3),
        };
        let f = g.bytes;
        let label = g.recipe;
        ctx.item_bytes(&label, &f);
        ctx.phase("nonverdict: building the container (C01's verdict)");
        let container = match cur::expand(&f) {
            Out::Ok(c) => c,
            _ => {
                ctx.count("expand_failed_not_judged");
                return;
            }
        };
        // the plain round trip must hold for the rest to mean anything (that is C01's verdict)
        match cur::recreate(&container) {
            Out::Ok(v) if v == f => {}
            _ => {
                ctx.count("plain_roundtrip_broken_not_judged");
                return;
            }
        }
        ctx.phase("verdict: reconstruction under instrumented I/O");
        let parsed = cparse::parse(&container).ok();
        if let Some(p) = &parsed {
            for c in &p.chunks {
                ctx.count(["container_chunks:literal", "container_chunks:deflate", "container_chunks:png"][c.kind as usize]);
            }
        }
        ctx.nontrivial(hash64(&container));
        let mut distinct_faults = 0u64;
        // (1) fragmentation only
        for rf in frag_patterns(&mut r) {
            for wf in [Frag::Whole, Frag::Const(1), Frag::Random(9), Frag::Const(65535)] {
                let a = Attempt {
                    rfrag: rf,
                    wfrag: wf,
                    rfail: 0,
                    rfault: Fault::None,
                    wfail: 0,
                    wfault: Fault::None,
                };
                Self::attempt(&container, &f, &a, &label, k, ctx, false);
                ctx.count("fragmentation_patterns");
            }
        }
        // (2) error positions: structural offsets + random ones (all of them in the thorough tier for
        //     small containers)
        let mut roffs: Vec<usize> = vec![0, 1, container.len().saturating_sub(1), container.len()];
        if let Some(p) = &parsed {
            for c in &p.chunks {
                roffs.extend_from_slice(&[c.at, c.at + 1, c.at + 2, c.data.0, c.data.0 + 1, c.data.1.saturating_sub(1), c.data.1]);
                if c.kind != 0 {
                    roffs.extend_from_slice(&[c.corr.0, c.corr.0 + 1, c.corr.1.saturating_sub(1), c.corr.1]);
                }
            }
        }
        let exhaustive = self.tier == Tier::Thorough && container.len() <= 4096;
        if exhaustive {
            roffs = (0..=container.len()).collect();
            ctx.count("containers_with_every_offset");
        } else {
            for _ in 0..self.tier.pick(12, 300) {
                roffs.push(r.usize_below(container.len() + 1));
            }
        }
        roffs.sort();
        roffs.dedup();
        roffs.retain(|&o| o <= container.len());
        for &off in &roffs {
            let kinds: Vec<ErrorKind> = if exhaustive { vec![KINDS[(off % 5) as usize], ErrorKind::Interrupted] } else { vec![*r.pick(&KINDS[..5]), ErrorKind::Interrupted] };
            for kind in kinds {
                let a = Attempt {
                    rfrag: *r.pick(&[Frag::Whole, Frag::Const(1), Frag::Random(16)]),
                    wfrag: *r.pick(&[Frag::Whole, Frag::Random(9)]),
                    rfail: off,
                    rfault: Fault::Err(kind),
                    wfail: 0,
                    wfault: Fault::None,
                };
                Self::attempt(&container, &f, &a, &label, k ^ off as u64, ctx, false);
                ctx.count("read_faults_injected");
                distinct_faults += 1;
            }
        }
        let mut woffs: Vec<usize> = vec![0, 1, f.len().saturating_sub(1), f.len()];
        // chunk boundaries in the output: where each embedded wrapper begins/ends
        for e in &g.embedded {
            woffs.extend_from_slice(&[e.start, e.stream_start, e.stream_start + 1, e.stream_start + e.span_len, e.stream_start + e.span_len + 1]);
        }
        if self.tier == Tier::Thorough && f.len() <= 4096 {
            woffs = (0..=f.len()).collect();
        } else {
            for _ in 0..self.tier.pick(12, 300) {
                woffs.push(r.usize_below(f.len() + 1));
            }
        }
        woffs.sort();
        woffs.dedup();
        woffs.retain(|&o| o < f.len().max(1));
        for &off in &woffs {
            let fault = match r.below(7) {
                0 => Fault::Zero,
                1 => Fault::Err(ErrorKind::Interrupted),
                _ => Fault::Err(*r.pick(&KINDS[..5])),
            };
            let a = Attempt {
                rfrag: *r.pick(&[Frag::Whole, Frag::Random(16)]),
                wfrag: *r.pick(&[Frag::Whole, Frag::Const(1), Frag::Random(9)]),
                rfail: 0,
                rfault: Fault::None,
                wfail: off,
                wfault: fault,
            };
            Self::attempt(&container, &f, &a, &label, k ^ (off as u64) << 20, ctx, false);
            ctx.count("write_faults_injected");
            distinct_faults += 1;
        }
        ctx.count_n("distinct_container_fault_pairs", distinct_faults);
        if ctx.want_sample() {
            ctx.sample(json!({"container": hex_prefix(&container, 32), "container_len": container.len(), "file_len": f.len(),
                "how": label, "read_fault_offsets": roffs.len(), "write_fault_offsets": woffs.len()}));
        }
    }

    fn selftest(&mut self) -> Result<String, String> {
        let mut r = Rng::new(29);
        let g = wrap::assemble(&mut r, 3000, 2);
        let container = match cur::expand(&g.bytes) {
            Out::Ok(c) => c,
            _ => return Ok("skipped: expand failed".into()),
        };
        let mut c = Ctx::scratch("C13");
        let a = Attempt {
            rfrag: Frag::Const(1),
            wfrag: Frag::Const(1),
            rfail: 0,
            rfault: Fault::None,
            wfail: 0,
            wfault: Fault::None,
        };
        if Self::attempt(&container, &g.bytes, &a, "selftest", 1, &mut c, true) {
            Ok("a sink with one extra byte was reported".into())
        } else {
            Err("tampered sink was not reported".into())
        }
    }
}

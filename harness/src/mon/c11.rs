//! C11 — zstd wrappers round-trip; capacity and framing problems are errors.
//!
//! Refuting observations: capacity >= |expand(F)| and decompress_zstd(compress_zstd(F), capacity) is
//! not Ok(F); capacity < |expand(F)| and the result is Ok(anything) or a panic; input that is not a
//! (complete) zstd frame giving Ok or a panic.

use super::{scaled, Monitor};
use crate::api::{cur, Out};
use crate::ctx::{hex_prefix, Ctx, Tier};
use crate::rng::{digest_hex, hash64, Rng};
use crate::{streams, wrap};
use serde_json::json;

pub struct C11 {
    tier: Tier,
    seed: u64,
    n: u64,
}

fn kind_of<T>(o: &Out<T>) -> String {
    match o {
        Out::Ok(_) => "Ok".into(),
        Out::Err(c) => format!("Err({})", c),
        Out::Panic(s) => format!("panic at {}", s),
    }
}

fn looks_like_frame(b: &[u8]) -> bool {
    b.len() >= 4 && ((b[0] == 0x28 && b[1] == 0xB5 && b[2] == 0x2F && b[3] == 0xFD) || (b[0] & 0xF0 == 0x50 && b[1] == 0x2A && b[2] == 0x4D && b[3] == 0x18))
}

impl C11 {
    pub fn new(tier: Tier, seed: u64, scale: u64) -> C11 {
        C11 {
            tier,
            seed,
            n: scaled(tier.pick(12_000, 300_000), scale),
        }
    }

    /// `widen`: self-test only — pretend the boundary is one byte lower than it is
    pub fn judge(f: &[u8], label: &str, r: &mut Rng, ctx: &mut Ctx, widen: bool) -> bool {
        ctx.item_bytes(label, f);
        let case = json!({"label": label});
        ctx.phase("nonverdict: expansion to find the boundary (totality is C01's verdict)");
        let exp = match cur::expand(f) {
            Out::Ok(v) => v,
            _ => {
                ctx.count("expand_failed_not_judged");
                return false;
            }
        };
        ctx.phase("verdict: zstd wrappers");
        let c = match cur::zstd_compress(f) {
            Out::Ok(c) => c,
            other => {
                ctx.count("evaluations");
                ctx.violation(
                    "compress_failed",
                    &format!("compress_failed|{}", kind_of(&other)),
                    &format!("compress_zstd gave {} on {}", kind_of(&other), label),
                    case,
                    f,
                );
                return true;
            }
        };
        // the boundary: size of the intermediate form inside this very frame, read with the harness's own
        // zstd (equals |expand(F)| whenever the library is deterministic, which is C14's verdict, not ours)
        let inner = match zstd::stream::decode_all(&c[..]) {
            Ok(v) => v.len(),
            Err(_) => exp.len(),
        };
        if inner != exp.len() {
            ctx.count("frame_content_differs_in_size_from_a_second_expansion");
        }
        let size = inner - if widen { 1 } else { 0 };
        let mut bad = false;
        let k = 1 + r.usize_below(65536);
        let mut caps = vec![0usize, 1, size.saturating_sub(1), size, size + 1, size + k, 2 * size, size / 2];
        if r.chance(1, 50) {
            caps.push(128 << 20);
        }
        caps.sort();
        caps.dedup();
        for cap in caps {
            ctx.count("evaluations");
            let d = cur::zstd_decompress(&c, cap);
            if cap >= size {
                ctx.count("capacity_sufficient");
                match &d {
                    Out::Ok(v) if v[..] == f[..] => {}
                    other => {
                        bad = true;
                        ctx.violation(
                            "sufficient_capacity_failed",
                            &format!("sufficient_capacity_failed|{}|{}", kind_of(other), digest_hex(f)),
                            &format!(
                                "capacity {} >= expanded size {} but decompress_zstd gave {} on {}",
                                cap,
                                size,
                                match other {
                                    Out::Ok(v) => format!("Ok({} bytes, not the file)", v.len()),
                                    x => kind_of(x),
                                },
                                label
                            ),
                            case.clone(),
                            f,
                        );
                    }
                }
            } else {
                ctx.count("capacity_too_small");
                match &d {
                    Out::Err(_) => {}
                    other => {
                        bad = true;
                        ctx.violation(
                            "small_capacity_not_err",
                            &format!("small_capacity_not_err|{}", match other { Out::Panic(s) => format!("panic|{}", s), _ => "ok".into() }),
                            &format!(
                                "capacity {} < expanded size {} but decompress_zstd gave {} on {}",
                                cap,
                                size,
                                match other {
                                    Out::Ok(v) => format!("Ok({} bytes{})", v.len(), if v[..] == f[..] { ", the whole file" } else { ", truncated or different" }),
                                    x => kind_of(x),
                                },
                                label
                            ),
                            case.clone(),
                            f,
                        );
                    }
                }
            }
        }
        // inputs that are not a complete zstd frame
        let mut non_frames: Vec<(String, Vec<u8>)> = vec![
            ("empty".into(), vec![]),
            ("the expanded container itself".into(), exp.clone()),
            ("a bare version byte".into(), vec![1]),
            ("a tiny literal container".into(), vec![1, 0, 3, b'a', b'b', b'c']),
        ];
        if !looks_like_frame(f) {
            non_frames.push(("the file itself".into(), f.to_vec()));
        }
        let n = r.usize_below(200);
        let noise = r.bytes(n);
        if !looks_like_frame(&noise) {
            non_frames.push(("noise".into(), noise));
        }
        if c.len() > 1 {
            for _ in 0..3 {
                let at = r.usize_below(c.len() - 1) + if r.chance(1, 2) { 0 } else { 1 };
                let at = at.min(c.len() - 1);
                non_frames.push((format!("frame truncated to {} of {} bytes", at, c.len()), c[..at].to_vec()));
            }
            non_frames.push(("frame without its last byte".into(), c[..c.len() - 1].to_vec()));
            non_frames.push(("frame without its magic".into(), c[4.min(c.len())..].to_vec()));
        }
        // frames with a damaged header (descriptor / content-size bytes): whatever zstd makes of them, the call
        // must not panic, and Ok is acceptable only with the file itself
        let mut damaged: Vec<(String, Vec<u8>)> = vec![];
        // (bytes of a real frame are not flipped: zstd frames carry no checksum here, a changed payload decodes
        // to a garbage container, about which no property promises anything)
        for _ in 0..4 {
            // magic, a frame header descriptor asking for a 1/2/4/8-byte content size, that size, then noise
            let fcs_flag = r.below(4) as u8;
            let fhd = (fcs_flag << 6) | 0x20 | (r.below(2) as u8) << 2;
            let mut x = vec![0x28, 0xB5, 0x2F, 0xFD, fhd];
            let n = [1usize, 2, 4, 8][fcs_flag as usize];
            let fcs = match r.below(3) {
                0 => vec![0xff; n],
                1 => r.bytes(n),
                _ => {
                    let mut v = vec![0u8; n];
                    v[n - 1] = 0x7f;
                    v
                }
            };
            x.extend_from_slice(&fcs);
            let tail = r.usize_below(24);
            x.extend(r.bytes(tail));
            damaged.push((format!("magic + header announcing a {}-byte content size field {:02x?} + {} noise bytes", n, fcs, tail), x));
        }
        for (how, nf) in damaged {
            ctx.count("evaluations");
            ctx.count("damaged_frames");
            match cur::zstd_decompress(&nf, size + 64) {
                Out::Err(_) => {}
                Out::Ok(v) if v[..] == f[..] => {}
                other => {
                    bad = true;
                    ctx.violation(
                        "damaged_frame_mishandled",
                        &format!("damaged_frame_mishandled|{}", match &other { Out::Panic(s) => format!("panic|{}", s), _ => "ok_wrong_bytes".into() }),
                        &format!("{} gave {} on {}", how, match &other { Out::Ok(v) => format!("Ok({} bytes, not the file)", v.len()), x => kind_of(x) }, label),
                        json!({"label": label, "damaged": how}),
                        &nf,
                    );
                }
            }
        }
        for (how, nf) in non_frames {
            ctx.count("evaluations");
            ctx.count("non_frames");
            let d = cur::zstd_decompress(&nf, size + 64);
            match &d {
                Out::Err(_) => {}
                other => {
                    bad = true;
                    ctx.violation(
                        "non_frame_not_err",
                        &format!("non_frame_not_err|{}|{}", how.split(' ').next().unwrap_or(""), match other { Out::Panic(s) => format!("panic|{}", s), _ => "ok".into() }),
                        &format!("input that is not a zstd frame ({}) gave {} on {}", how, kind_of(other), label),
                        json!({"label": label, "non_frame": how}),
                        &nf,
                    );
                }
            }
        }
        ctx.nontrivial(hash64(f));
        if ctx.want_sample() {
            ctx.sample(json!({"file": hex_prefix(f, 32), "len": f.len(), "how": label, "expanded_size": size, "frame_len": c.len()}));
        }
        bad
    }
}

impl Monitor for C11 {
    fn ncases(&self) -> u64 {
        self.n
    }

    fn cpu_budget_s(&self) -> u64 {
        120
    }

    fn run_case(&mut self, k: u64, ctx: &mut Ctx) {
        let mut r = Rng::derive(self.seed, 0x1101, k, 0);
        let max_plain = self.tier.pick(20_000, 200_000);
        if k == 13 || k == 23 {
            // scale: a zlib member with about 137 / 35 MiB of plaintext (beyond / below the crate's 128 MiB constant)
            if let Some(st) = streams::scale_stream(&mut r, (k - 13) / 10) {
                let mut f = wrap::junk_clean(&mut r, 64);
                f.extend(wrap::zlib_wrap(&st.bytes, &st.plain, 0x9C));
                f.extend(wrap::junk_clean(&mut r, 32));
                ctx.count("files_with_a_member_of_many_MiB");
                Self::judge(&f, &format!("zlib member: {}", st.recipe), &mut r, ctx, false);
            }
            return;
        }
        let g = match k % 10 {
            7 if k % 4000 == 7 => {
                // scale: an incompressible file of several MiB up to tens of MiB (zstd's worst-case expansion,
                // buffer bounds that only large inputs reach); thresholds are probed at a handful of sizes
                let mib = [13usize, 6, 40, 3, 11, 17, 24][((k / 4000) % 7) as usize];
                let n = (mib << 20) + r.usize_below(70000);
                let mut bytes = r.bytes(n);
                let g2 = wrap::assemble(&mut r, 20_000, 2);
                bytes.extend(g2.bytes);
                ctx.count("large_incompressible_files");
                wrap::GenFile {
                    bytes,
                    recipe: format!("{} bytes of noise + {}", n, g2.recipe),
                    embedded: vec![],
                }
            }
            0 => wrap::edge_case(k / 10, &mut r),
            1 => wrap::GenFile {
                bytes: {
                    let n = r.usize_below(300);
                    r.bytes(n)
                },
                recipe: "noise, no embedded stream".into(),
                embedded: vec![],
            },
            _ => wrap::assemble(&mut r, max_plain, 3),
        };
        ctx.count(&format!("files_with_{}_embedded", g.embedded.len().min(3)));
        let (bytes, label) = if r.chance(1, 4) {
            let (how, m) = streams::mutate(&mut r, &g.bytes, None);
            (m, format!("{} <- {}", how, g.recipe))
        } else {
            (g.bytes, g.recipe)
        };
        Self::judge(&bytes, &label, &mut r, ctx, false);
    }

    fn can_judge_file(&self, _rec: &serde_json::Value) -> bool {
        false
    }

    fn judge_file(&mut self, bytes: &[u8], ctx: &mut Ctx) {
        let mut r = Rng::new(self.seed);
        Self::judge(bytes, "file", &mut r, ctx, false);
    }

    fn selftest(&mut self) -> Result<String, String> {
        // with the boundary mis-stated by one byte, capacity = size-1 "must succeed" and cannot
        let mut r = Rng::new(23);
        let g = wrap::assemble(&mut r, 3000, 2);
        let mut c = Ctx::scratch("C11");
        if !cur::expand(&g.bytes).is_ok() {
            return Ok("skipped: expand failed".into());
        }
        if Self::judge(&g.bytes, "selftest", &mut r, &mut c, true) {
            Ok("with the capacity boundary mis-stated by one byte the oracle fired".into())
        } else {
            Err("mis-stated boundary was not reported".into())
        }
    }
}

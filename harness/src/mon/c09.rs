//! C09 — modelling quality on mainstream compressors does not regress.
//!
//! Paired differential monitor: the identical seeded sample of compressor-made streams is analysed by
//! the frozen reference build (ref1) and by the current build (verify=true). Workers only count; the
//! driver applies the statement's one-sided thresholds per compressor family: accepted_cur >= 0.99 *
//! accepted_ref, and over streams both accept sum|corrections_cur| <= 1.03 * sum|corrections_ref|.

use super::{scaled, Monitor};
use crate::api::{cur, ref1, Out};
use crate::comp::FAMILIES;
use crate::ctx::{Ctx, Tier};
use crate::rng::{hash64, Rng};
use crate::streams;
use serde_json::json;

pub struct C09 {
    tier: Tier,
    seed: u64,
    per_family: u64,
}

impl C09 {
    pub fn new(tier: Tier, seed: u64, scale: u64) -> C09 {
        C09 {
            tier,
            seed,
            per_family: scaled(tier.pick(1_000, 16_000), scale),
        }
    }
}

impl Monitor for C09 {
    fn ncases(&self) -> u64 {
        4 * self.per_family
    }

    fn cpu_budget_s(&self) -> u64 {
        180
    }

    fn run_case(&mut self, k: u64, ctx: &mut Ctx) {
        let fam = (k % 4) as usize;
        let mut r = Rng::derive(self.seed, 0x0901, k, 0);
        // plaintexts 2..128 KiB
        let max_plain = self.tier.pick(96 * 1024, 128 * 1024);
        // stratified sample: every plaintext class with equal weight, sizes uniform in 2 KiB..max, so that a
        // regression confined to one class of data still moves the family aggregate
        let s = loop {
            let kind = *r.pick(&[0u64, 1, 2, 4, 5, 6, 8, 8]);
            let n = 2048 + r.usize_below(max_plain - 2048);
            let mut p = crate::plain::make_kind(&mut r, kind, n);
            // a quarter of the files open with a short run of one byte (zeroed header fields, a title rule, a
            // blank scan line): matches that reach back to the very first byte of the plaintext
            if r.chance(1, 4) {
                let b = *r.pick(&[0u8, 0, 0xff, b'=', b' ']);
                let l = 4 + r.usize_below(60);
                p.splice(0..0, std::iter::repeat(b).take(l));
            }
            if let Some((rec, d)) = crate::comp::random_compress(&mut r, &p, Some(fam)) {
                break streams::Stream {
                    source: rec.family,
                    recipe: format!("{} on {}[{}]", rec.text, crate::plain::kind_name(kind), p.len()),
                    bytes: d,
                    plain: p,
                };
            }
        };
        ctx.item_bytes(&s.recipe, &s.bytes);
        ctx.count("evaluations");
        let name = FAMILIES[fam];
        ctx.phase("nonverdict: analyses being compared (a crash is C05's verdict)");
        let a_ref = ref1::analyze(&s.bytes, true);
        let a_cur = cur::analyze(&s.bytes, true);
        ctx.count(&format!("{}:streams", name));
        let cell = s.recipe.split(" on ").next().unwrap_or("").split(" wbits").next().unwrap_or("").to_string();
        if a_ref.is_ok() {
            ctx.count(&format!("{}:accepted_ref", name));
        }
        if a_cur.is_ok() {
            ctx.count(&format!("{}:accepted_cur", name));
        }
        if let Out::Panic(site) = &a_cur {
            ctx.count(&format!("{}:current_panicked", name));
            ctx.note("current_panicked", json!({"site": site, "how": s.recipe}));
        }
        match (&a_ref, &a_cur) {
            (Out::Ok(x), Out::Ok(y)) => {
                ctx.count(&format!("{}:accepted_both", name));
                ctx.count_n(&format!("{}:corr_bytes_ref", name), x.corr.len() as u64);
                ctx.count_n(&format!("{}:corr_bytes_cur", name), y.corr.len() as u64);
                let level = s.recipe.split("level=").nth(1).and_then(|t| t.split(' ').next()).unwrap_or("?").to_string();
                ctx.count_n(&format!("stratum:{}:level={}:corr_ref", name, level), x.corr.len() as u64);
                ctx.count_n(&format!("stratum:{}:level={}:corr_cur", name, level), y.corr.len() as u64);
                ctx.count(&format!("stratum:{}:level={}:n", name, level));
                ctx.count_n(&format!("cell:{}:corr_ref", cell), x.corr.len() as u64);
                ctx.count_n(&format!("cell:{}:corr_cur", cell), y.corr.len() as u64);
                ctx.count_n(&format!("{}:compressed_bytes", name), s.bytes.len() as u64);
                ctx.nontrivial(hash64(&s.bytes));
                if y.corr.len() > x.corr.len() + x.corr.len() / 4 + 16 {
                    ctx.note(
                        "stream_much_worse_than_reference",
                        json!({"how": s.recipe, "corr_ref": x.corr.len(), "corr_cur": y.corr.len()}),
                    );
                }
                if ctx.want_sample() {
                    ctx.sample(json!({"how": s.recipe, "compressed": s.bytes.len(), "corr_ref": x.corr.len(), "corr_cur": y.corr.len(),
                        "params_cur": y.params}));
                }
            }
            (Out::Ok(_), other) => {
                ctx.count(&format!("cell:{}:lost", cell));
                ctx.note("accepted_by_reference_only", json!({"how": s.recipe, "current": other.kind()}));
            }
            _ => {}
        }
    }

    fn selftest(&mut self) -> Result<String, String> {
        // the statistic itself is computed by the driver (props.post_process), which carries its own
        // self-test; here: the two builds must be distinguishable objects, i.e. both callable
        let mut r = Rng::new(41);
        let s = streams::compressor_stream(&mut r, 4000, Some(0));
        let a = ref1::analyze(&s.bytes, true);
        let b = cur::analyze(&s.bytes, true);
        Ok(format!("reference and current build both executed on a probe stream: ref={} cur={}", a.kind(), b.kind()))
    }
}

//! C10 — the correction codec is lossless for every operation sequence.
//!
//! Hook: `cabac_roundtrip(ops) -> (encoded size, decoded ops)` drives PredictionEncoderCabac<VP8Writer>
//! and PredictionDecoderCabac<VP8Reader> operation by operation. Refuting observation: decoded ops
//! differ from the encoded ones, or a panic.

use super::{scaled, Monitor};
use crate::api::cur::{self, Op};
use crate::api::Out;
use crate::ctx::{guard, Ctx, Guarded, Tier};
use crate::rng::{hash64, Rng};
use crate::streams;
use serde_json::json;

pub struct C10 {
    tier: Tier,
    seed: u64,
    n_single: u64,
    n_random: u64,
    n_real: u64,
}

fn op_json(op: &Op) -> serde_json::Value {
    match *op {
        Op::Value(v, b) => json!(["value", v, b]),
        Op::Misprediction(c, v) => json!(["misprediction", c, v]),
        Op::Correction(c, v) => json!(["correction", c, v]),
    }
}

fn ops_bytes(ops: &[Op]) -> Vec<u8> {
    let mut b = Vec::with_capacity(ops.len() * 6);
    for op in ops {
        match *op {
            Op::Value(v, n) => {
                b.push(0);
                b.push(n);
                b.extend_from_slice(&v.to_le_bytes());
            }
            Op::Misprediction(c, v) => {
                b.push(1);
                b.push(c);
                b.push(v as u8);
            }
            Op::Correction(c, v) => {
                b.push(2);
                b.push(c);
                b.extend_from_slice(&v.to_le_bytes());
            }
        }
    }
    b
}

pub fn ops_from_bytes(b: &[u8]) -> Vec<Op> {
    let mut ops = vec![];
    let mut i = 0;
    while i < b.len() {
        match b[i] {
            0 if i + 4 <= b.len() => {
                ops.push(Op::Value(u16::from_le_bytes([b[i + 2], b[i + 3]]), b[i + 1]));
                i += 4;
            }
            1 if i + 3 <= b.len() => {
                ops.push(Op::Misprediction(b[i + 1], b[i + 2] != 0));
                i += 3;
            }
            2 if i + 6 <= b.len() => {
                ops.push(Op::Correction(b[i + 1], u32::from_le_bytes([b[i + 2], b[i + 3], b[i + 4], b[i + 5]])));
                i += 6;
            }
            _ => break,
        }
    }
    ops
}

impl C10 {
    pub fn new(tier: Tier, seed: u64, scale: u64) -> C10 {
        C10 {
            tier,
            seed,
            // 10 correction contexts x 2^17 values, 16 bit widths of plain values, 7 x 2 flags
            n_single: 10 + 16 + 1,
            n_random: scaled(tier.pick(6_000, 150_000), scale),
            n_real: scaled(tier.pick(3_000, 60_000), scale),
        }
    }

    pub fn judge(ops: &[Op], label: &str, ctx: &mut Ctx, corrupt: bool, light: bool) -> bool {
        if !light {
            ctx.count("evaluations");
            ctx.count_n("operations", ops.len() as u64);
        }
        let r = guard(|| cur::verif::cabac_roundtrip(ops));
        match r {
            Guarded::Done((size, mut out)) => {
                if corrupt {
                    if let Some(Op::Correction(_, v)) = out.iter_mut().find(|o| matches!(o, Op::Correction(..))) {
                        *v ^= 1;
                    }
                }
                if out[..] != ops[..] {
                    let i = out.iter().zip(ops.iter()).position(|(a, b)| a != b).unwrap_or(out.len().min(ops.len()));
                    let b = ops_bytes(ops);
                    ctx.violation(
                        "decode_differs",
                        &format!(
                            "decode_differs|{}",
                            match ops.get(i) {
                                Some(Op::Value(..)) => "value",
                                Some(Op::Misprediction(..)) => "misprediction",
                                Some(Op::Correction(c, _)) => ["c0", "c1", "c2", "c3", "c4", "c5", "c6", "c7", "c8", "c9"][(*c as usize).min(9)],
                                None => "length",
                            }
                        ),
                        &format!(
                            "sequence of {} operations decodes differently at operation {}: encoded {:?}, decoded {:?} ({})",
                            ops.len(),
                            i,
                            ops.get(i),
                            out.get(i),
                            label
                        ),
                        json!({"label": label, "first_difference": i,
                               "around": ops.iter().skip(i.saturating_sub(3)).take(7).map(op_json).collect::<Vec<_>>()}),
                        &b,
                    );
                    return true;
                }
                if !light {
                    ctx.count_n("encoded_bytes", size as u64);
                }
                false
            }
            Guarded::Panicked(s) => {
                let b = ops_bytes(ops);
                ctx.violation(
                    "panic",
                    &format!("panic|{}", s),
                    &format!("codec panicked at {} on a sequence of {} operations ({})", s, ops.len(), label),
                    json!({"label": label}),
                    &b,
                );
                true
            }
        }
    }
}

/// value with a chosen bit length: 0, 2^k-1, 2^k, 2^k+1 and random ones
fn value_with_bits(r: &mut Rng, max_bits: u32) -> u32 {
    let bl = r.below(max_bits as u64 + 1) as u32;
    if bl == 0 {
        return 0;
    }
    let top = 1u64 << (bl - 1);
    let v = match r.below(4) {
        0 => top,
        1 => (top << 1) - 1,
        2 => top + 1,
        _ => top | (r.next() & (top - 1)),
    };
    (v.min((1u64 << max_bits) - 1)) as u32
}

pub fn random_sequence(r: &mut Rng) -> (String, Vec<Op>) {
    let big = r.chance(1, 8);
    let len = 1 + r.usize_below(if big { 6000 } else { 80 });
    let style = r.below(6);
    let mut ops = Vec::with_capacity(len);
    let hammer_ctx = r.below(10) as u8;
    for i in 0..len {
        match style {
            // long default runs with rare non-defaults; runs may end exactly at the end
            0 => {
                if r.chance(1, 200) {
                    ops.push(Op::Correction(r.below(10) as u8, value_with_bits(r, 31)));
                } else if r.chance(1, 2) {
                    ops.push(Op::Misprediction(r.below(7) as u8, false));
                } else {
                    ops.push(Op::Correction(r.below(10) as u8, 0));
                }
            }
            // one context hammered: adaptive state saturation
            1 => {
                let mb = if r.chance(1, 2) { 4 } else { 31 };
                ops.push(Op::Correction(hammer_ctx, value_with_bits(r, mb)))
            }
            // bypass values between arithmetic ones
            2 => {
                if i % 2 == 0 {
                    let bits = 1 + r.below(16) as u8;
                    ops.push(Op::Value((r.next() & ((1u64 << bits) - 1)) as u16, bits));
                } else {
                    ops.push(Op::Correction(r.below(10) as u8, value_with_bits(r, 31)));
                }
            }
            // all flags
            3 => ops.push(Op::Misprediction(r.below(7) as u8, r.chance(1, 3))),
            // everything interleaved
            _ => {
                let k = r.below(100);
                if k < 15 {
                    let bits = 1 + r.below(16) as u8;
                    let v = match r.below(3) {
                        0 => 0,
                        1 => ((1u32 << bits) - 1) as u16,
                        _ => (r.next() & ((1u64 << bits) - 1)) as u16,
                    };
                    ops.push(Op::Value(v, bits));
                } else if k < 50 {
                    ops.push(Op::Misprediction(r.below(7) as u8, r.chance(1, 3)));
                } else {
                    let v = if r.chance(1, 3) { 0 } else { value_with_bits(r, 31) };
                    ops.push(Op::Correction(r.below(10) as u8, v));
                }
            }
        }
    }
    (format!("random style {} len {}", style, len), ops)
}

impl Monitor for C10 {
    fn ncases(&self) -> u64 {
        self.n_single + self.n_random + self.n_real
    }

    fn run_case(&mut self, k: u64, ctx: &mut Ctx) {
        let mut k = k;
        if k < self.n_single {
            if k < 10 {
                // every single correction v < 2^17 in context k
                let mut n = 0u64;
                for v in 0..(1u32 << 17) {
                    Self::judge(&[Op::Correction(k as u8, v)], "single correction", ctx, false, true);
                    n += 1;
                }
                // and the top of the stated range
                for v in [(1u32 << 31) - 1, 1 << 30, (1 << 30) + 1, (1 << 24) - 1, 1 << 24] {
                    Self::judge(&[Op::Correction(k as u8, v)], "single correction (large)", ctx, false, true);
                    n += 1;
                }
                ctx.count_n("single_corrections_enumerated", n);
                ctx.count_n("evaluations", n);
            } else if k < 26 {
                let bits = (k - 9) as u8; // 1..=16
                let mut n = 0u64;
                for v in 0..(1u32 << bits) {
                    Self::judge(&[Op::Value(v as u16, bits)], "single value", ctx, false, true);
                    n += 1;
                }
                ctx.count_n("single_values_enumerated", n);
                ctx.count_n("evaluations", n);
            } else {
                for c in 0..7u8 {
                    for v in [false, true] {
                        Self::judge(&[Op::Misprediction(c, v)], "single flag", ctx, false, false);
                        // and pairs of a flag with every context's small correction
                        for c2 in 0..10u8 {
                            for v2 in [0u32, 1, 2, 3, 255, 256] {
                                Self::judge(&[Op::Misprediction(c, v), Op::Correction(c2, v2)], "flag+correction", ctx, false, false);
                                Self::judge(&[Op::Correction(c2, v2), Op::Misprediction(c, v)], "correction+flag", ctx, false, false);
                            }
                        }
                    }
                }
            }
            return;
        }
        k -= self.n_single;
        if k < self.n_random {
            let mut r = Rng::derive(self.seed, 0x1001, k, 0);
            if k % 8 == 0 {
                // very long runs of one default operation (a correct prediction, a zero correction) of lengths on
                // and around 2^15, 2^16 and beyond, closed by a non-default operation, a value, or nothing
                let lens = [32767usize, 32768, 32769, 65535, 65536, 65537, 70001, 131073, 40000, 16384];
                let n = lens[((k / 8) % lens.len() as u64) as usize];
                let c = r.below(7) as u8;
                let cc = r.below(10) as u8;
                let unit = match (k / 8 / lens.len() as u64) % 3 {
                    0 => Op::Misprediction(c, false),
                    1 => Op::Correction(cc, 0),
                    _ => Op::Misprediction(c, false),
                };
                let mut ops = vec![unit; n];
                if (k / 8 / lens.len() as u64) % 3 == 2 {
                    // alternate the two kinds of default
                    for (i, o) in ops.iter_mut().enumerate() {
                        if i % 2 == 1 {
                            *o = Op::Correction(cc, 0);
                        }
                    }
                }
                match r.below(4) {
                    0 => ops.push(Op::Correction(cc, 1 + r.below(300) as u32)),
                    1 => ops.push(Op::Misprediction(c, true)),
                    2 => ops.push(Op::Value(r.below(256) as u16, 8)),
                    _ => {}
                }
                for _ in 0..r.usize_below(5) {
                    ops.push(Op::Misprediction(r.below(7) as u8, r.chance(1, 2)));
                }
                ctx.count("very_long_default_runs");
                let bad = Self::judge(&ops, &format!("default run of {} operations", n), ctx, false, false);
                if !bad {
                    ctx.nontrivial(hash64(&ops_bytes(&ops)));
                }
                return;
            }
            for _ in 0..40 {
                let (label, ops) = random_sequence(&mut r);
                let bad = Self::judge(&ops, &label, ctx, false, false);
                if !bad {
                    ctx.nontrivial(hash64(&ops_bytes(&ops)));
                    for op in &ops {
                        match *op {
                            Op::Correction(c, v) if v != 0 => ctx.count(&format!("nondefault:correction:{}", c)),
                            Op::Misprediction(c, true) => ctx.count(&format!("nondefault:misprediction:{}", c)),
                            _ => {}
                        }
                    }
                }
                if ctx.want_sample() && ops.len() < 12 {
                    ctx.sample(json!({"ops": ops.iter().map(op_json).collect::<Vec<_>>(), "how": label}));
                }
            }
            return;
        }
        k -= self.n_random;
        // operation sequences that real analyses produce
        let mut r = Rng::derive(self.seed, 0x1002, k, 0);
        let s = match streams::any_stream(&mut r, self.tier.pick(30_000, 200_000), 4) {
            Some(s) => s,
            None => {
                ctx.count("generator_rejected");
                return;
            }
        };
        if let Out::Ok(ops) = cur::analyze_ops(&s.bytes) {
            ctx.count("real_sequences");
            ctx.max("real_sequence_len", ops.len() as u64);
            if !Self::judge(&ops, &format!("ops of the analysis of {}: {}", streams::SOURCE_NAMES[s.source], s.recipe), ctx, false, false) {
                ctx.nontrivial(hash64(&ops_bytes(&ops)));
            }
        } else {
            ctx.count("analysis_rejected_stream");
        }
    }

    fn can_judge_file(&self, _rec: &serde_json::Value) -> bool {
        true
    }

    fn judge_file(&mut self, bytes: &[u8], ctx: &mut Ctx) {
        let ops = ops_from_bytes(bytes);
        Self::judge(&ops, "file", ctx, false, false);
    }

    fn selftest(&mut self) -> Result<String, String> {
        let mut c = Ctx::scratch("C10");
        let ops = [Op::Misprediction(1, false), Op::Correction(3, 77), Op::Value(5, 4)];
        if Self::judge(&ops, "selftest", &mut c, true, false) {
            Ok("a decoded sequence with one changed correction value was reported".into())
        } else {
            Err("corrupted decoded sequence was not reported".into())
        }
    }
}

//! C14 — public functions are deterministic and safe to call concurrently.
//!
//! One case = one seeded input set. A sequential baseline of every public function on every input is
//! computed twice (repeat determinism); then 16 threads, released together by a barrier, call the
//! functions in three phases (all threads same input and function; distinct inputs; mixed) with random
//! yields, and every result must be byte-identical to the baseline. Each call logs (start, end) from one
//! monotonic clock into a per-thread buffer; the evidence reports how many call pairs really overlapped.
//! The driver adds: the same digest from freshly spawned processes with different environment, working
//! directory and thread count; ThreadSanitizer, Miri and valgrind runs (thorough tier).

use super::{scaled, Monitor};
use crate::api::{cur, Out};
use crate::ctx::{Ctx, Tier};
use crate::fence::Place;
use crate::mon::c12;
use crate::rng::{hash64, hash64_seeded, Rng};
use crate::{streams, wrap};
use serde_json::json;
use std::sync::{Arc, Barrier};
use std::time::Instant;

pub struct C14 {
    tier: Tier,
    seed: u64,
    n: u64,
}

pub const N_FUNCS: usize = 8;
pub const FUNC_NAMES: [&str; N_FUNCS] = [
    "decompress_deflate_stream(verify=false)",
    "decompress_deflate_stream(verify=true)",
    "recompress_deflate_stream",
    "expand_zlib_chunks",
    "recreated_zlib_chunks",
    "compress_zstd",
    "decompress_zstd",
    "WrapperCompressZip+WrapperDecompressZip",
];

#[derive(Clone)]
pub struct Input {
    pub stream: Vec<u8>,
    pub file: Vec<u8>,
    /// arguments for the reconstructing functions, computed once, sequentially
    pub plain: Vec<u8>,
    pub corr: Vec<u8>,
    pub container: Vec<u8>,
    pub frame: Vec<u8>,
    pub what: String,
}

fn digest_out<T: AsRef<[u8]>>(o: &Out<T>) -> u64 {
    match o {
        Out::Ok(v) => hash64_seeded(v.as_ref(), 1),
        Out::Err(c) => hash64_seeded(c.as_bytes(), 2),
        Out::Panic(s) => hash64_seeded(s.as_bytes(), 3),
    }
}

fn digest_analysis(o: &Out<crate::api::Analysis>) -> u64 {
    match o {
        Out::Ok(a) => {
            let mut h = hash64_seeded(&a.plain, 11);
            h ^= hash64_seeded(&a.corr, 12).rotate_left(7);
            h ^= hash64_seeded(a.params.as_bytes(), 13).rotate_left(13);
            h ^ (a.size as u64).wrapping_mul(0x9E3779B97F4A7C15)
        }
        Out::Err(c) => hash64_seeded(c.as_bytes(), 2),
        Out::Panic(s) => hash64_seeded(s.as_bytes(), 3),
    }
}

/// result of function `f` on input `i`, reduced to a 64-bit digest (payload bytes incl. the Debug
/// rendering of the parameters; or the error code; or the panic site)
pub fn eval(f: usize, i: &Input) -> u64 {
    match f {
        0 | 1 => match cur::analyze(&i.stream, f == 1) {
            Out::Ok(a) => {
                let mut h = hash64_seeded(&a.plain, 11);
                h ^= hash64_seeded(&a.corr, 12).rotate_left(7);
                h ^= hash64_seeded(a.params.as_bytes(), 13).rotate_left(13);
                h ^ (a.size as u64).wrapping_mul(0x9E3779B97F4A7C15)
            }
            Out::Err(c) => hash64_seeded(c.as_bytes(), 2),
            Out::Panic(s) => hash64_seeded(s.as_bytes(), 3),
        },
        2 => digest_out(&cur::reconstruct(&i.plain, &i.corr)),
        3 => digest_out(&cur::expand(&i.file)),
        4 => digest_out(&cur::recreate(&i.container)),
        5 => digest_out(&cur::zstd_compress(&i.file)),
        6 => digest_out(&cur::zstd_decompress(&i.frame, i.container.len() + 64)),
        _ => {
            let cap = zstd::zstd_safe::compress_bound(i.container.len().max(1)) + 64;
            let c = c12::call(true, &i.file, cap, Place::GuardAfter);
            let mut h = hash64_seeded(&c.out, 21) ^ (c.status as u64).rotate_left(32);
            if c.status == 0 {
                let d = c12::call(false, &c.out, i.file.len() + 16, Place::GuardBefore);
                h ^= hash64_seeded(&d.out, 22).rotate_left(9) ^ (d.status as u64).rotate_left(40);
            }
            h
        }
    }
}

/// the seeded input set of case `k`
pub fn input_set(seed: u64, k: u64, n: usize, max_plain: usize) -> Vec<Input> {
    let mut r = Rng::derive(seed, 0x1401, k, 0);
    let mut v = vec![];
    while v.len() < n {
        let s = match streams::any_stream(&mut r, max_plain, 3) {
            Some(s) => s,
            None => continue,
        };
        let mut g = wrap::assemble(&mut r, max_plain, 2);
        if v.len() % 6 == 1 {
            // large literal chunks: the 64 KiB copy loop of the reconstruction iterates many times
            let n = 400_000 + r.usize_below(1_600_000);
            let mut b = wrap::junk_clean(&mut r, n);
            b.extend_from_slice(&g.bytes);
            g.bytes = b;
            g.recipe = format!("{} bytes of clean junk + {}", n, g.recipe);
        }
        let stream = if r.chance(1, 6) { streams::mutate(&mut r, &s.bytes, None).1 } else { s.bytes.clone() };
        let (plain, corr) = match cur::analyze(&stream, false) {
            Out::Ok(a) => (a.plain, a.corr),
            _ => (s.plain.clone(), r.bytes(20)),
        };
        let container = match cur::expand(&g.bytes) {
            Out::Ok(c) => c,
            _ => vec![1],
        };
        let frame = match cur::zstd_compress(&g.bytes) {
            Out::Ok(c) => c,
            _ => vec![],
        };
        v.push(Input {
            what: format!("stream {}: {} | file: {}", streams::SOURCE_NAMES[s.source], s.recipe, g.recipe),
            stream,
            file: g.bytes,
            plain,
            corr,
            container,
            frame,
        });
    }
    v
}

pub fn baseline(inputs: &[Input]) -> Vec<[u64; N_FUNCS]> {
    inputs
        .iter()
        .map(|i| {
            let mut row = [0u64; N_FUNCS];
            for (f, slot) in row.iter_mut().enumerate() {
                *slot = eval(f, i);
            }
            row
        })
        .collect()
}

pub fn digest_of_baseline(b: &[[u64; N_FUNCS]]) -> u64 {
    let mut bytes = vec![];
    for row in b {
        for v in row {
            bytes.extend_from_slice(&v.to_le_bytes());
        }
    }
    hash64(&bytes)
}

/// run `f` in a forked child with a 1.5 GiB address-space cap and a wall-clock limit; Some(exit code) if the
/// child exited by itself, None if it died or had to be killed
fn in_child(limit_s: u64, f: impl FnOnce() -> i32) -> Option<i32> {
    unsafe {
        let pid = libc::fork();
        if pid < 0 {
            return None;
        }
        if pid == 0 {
            let lim = libc::rlimit {
                rlim_cur: 3 << 29,
                rlim_max: 3 << 29,
            };
            libc::setrlimit(libc::RLIMIT_AS, &lim);
            libc::signal(libc::SIGABRT, libc::SIG_DFL);
            let code = match std::panic::catch_unwind(std::panic::AssertUnwindSafe(f)) {
                Ok(c) => c,
                Err(_) => 99,
            };
            libc::_exit(code);
        }
        let t0 = Instant::now();
        crate::ctx::WD_EXTERNAL_WAIT.fetch_add(1, std::sync::atomic::Ordering::Relaxed);
        let res = loop {
            let mut st: libc::c_int = 0;
            let r = libc::waitpid(pid, &mut st, libc::WNOHANG);
            if r == pid {
                break if libc::WIFEXITED(st) { Some(libc::WEXITSTATUS(st)) } else { None };
            }
            if r < 0 {
                break None;
            }
            if t0.elapsed().as_secs() >= limit_s {
                libc::kill(pid, libc::SIGKILL);
                libc::waitpid(pid, &mut st, 0);
                break None;
            }
            std::thread::sleep(std::time::Duration::from_millis(5));
        };
        crate::ctx::WD_EXTERNAL_WAIT.fetch_sub(1, std::sync::atomic::Ordering::Relaxed);
        res
    }
}

struct CallLog {
    thread: usize,
    start_ns: u64,
    end_ns: u64,
}

impl C14 {
    pub fn new(tier: Tier, seed: u64, scale: u64) -> C14 {
        C14 {
            tier,
            seed,
            n: scaled(tier.pick(24, 400), scale),
        }
    }

    /// run `plan[t]` = list of (function, input index) on thread t; returns mismatches and the call log
    fn run_threads(
        inputs: &Arc<Vec<Input>>,
        base: &Arc<Vec<[u64; N_FUNCS]>>,
        plans: Vec<Vec<(usize, usize)>>,
        seed: u64,
        flip: bool,
    ) -> (Vec<(usize, usize, usize, u64, u64)>, Vec<CallLog>) {
        let n = plans.len();
        let barrier = Arc::new(Barrier::new(n));
        let t0 = Instant::now();
        let mut handles = vec![];
        for (t, plan) in plans.into_iter().enumerate() {
            let inputs = inputs.clone();
            let base = base.clone();
            let barrier = barrier.clone();
            handles.push(std::thread::spawn(move || {
                let mut r = Rng::derive(seed, 0x14FF, t as u64, 0);
                let mut bad = vec![];
                let mut log = Vec::with_capacity(plan.len());
                barrier.wait();
                for (f, i) in plan {
                    if r.chance(1, 3) {
                        std::thread::yield_now();
                    }
                    let s = t0.elapsed().as_nanos() as u64;
                    let mut d = eval(f, &inputs[i]);
                    let e = t0.elapsed().as_nanos() as u64;
                    if flip && t == 1 {
                        d ^= 1;
                    }
                    log.push(CallLog {
                        thread: t,
                        start_ns: s,
                        end_ns: e,
                    });
                    if d != base[i][f] {
                        bad.push((t, f, i, d, base[i][f]));
                    }
                }
                (bad, log)
            }));
        }
        let mut bad = vec![];
        let mut log = vec![];
        for h in handles {
            match h.join() {
                Ok((b, l)) => {
                    bad.extend(b);
                    log.extend(l);
                }
                Err(_) => bad.push((usize::MAX, 0, 0, 0, 0)),
            }
        }
        (bad, log)
    }

    fn overlaps(log: &[CallLog]) -> (u64, u64) {
        // number of pairs of calls on different threads whose [start,end) intervals intersect, and the
        // maximum number of calls in flight at one moment
        let mut ev: Vec<(u64, i32)> = vec![];
        for c in log {
            ev.push((c.start_ns, 1));
            ev.push((c.end_ns.max(c.start_ns + 1), -1));
        }
        ev.sort();
        let mut cur = 0i64;
        let mut maxc = 0i64;
        let mut pairs = 0u64;
        for (_, d) in ev {
            if d == 1 {
                pairs += cur as u64;
                cur += 1;
                maxc = maxc.max(cur);
            } else {
                cur -= 1;
            }
        }
        let _ = log.iter().map(|c| c.thread).max();
        (pairs, maxc as u64)
    }

    pub fn judge_set(&self, k: u64, ctx: &mut Ctx, flip: bool) -> bool {
        let nthreads = 16;
        let max_plain = self.tier.pick(8_000, 60_000);
        ctx.phase("nonverdict: building the input set");
        let inputs = Arc::new(input_set(self.seed, k, 12, max_plain));
        ctx.phase("verdict: baseline and concurrent phases");
        let base = Arc::new(baseline(&inputs));
        let mut bad = false;
        // (a) repeated sequential evaluation
        let again = baseline(&inputs);
        ctx.count_n("evaluations", (2 * inputs.len() * N_FUNCS) as u64);
        for (i, (x, y)) in base.iter().zip(again.iter()).enumerate() {
            for f in 0..N_FUNCS {
                if x[f] != y[f] {
                    bad = true;
                    ctx.violation(
                        "repeat_differs",
                        &format!("repeat_differs|{}", FUNC_NAMES[f]),
                        &format!("two sequential calls of {} with equal arguments returned different results on {}", FUNC_NAMES[f], inputs[i].what),
                        json!({"function": FUNC_NAMES[f], "input": inputs[i].what}),
                        &inputs[i].stream,
                    );
                }
            }
        }
        for (i, row) in base.iter().enumerate() {
            ctx.nontrivial(row.iter().fold(i as u64, |a, b| a.rotate_left(5) ^ b));
        }
        // (a') the same calls in the opposite order on a fresh thread: a result may depend on nothing but the
        // arguments, in particular not on what was called before (successfully or not) on this thread
        {
            let inputs2 = inputs.clone();
            let rev = std::thread::spawn(move || {
                let mut rows = vec![[0u64; N_FUNCS]; inputs2.len()];
                for i in (0..inputs2.len()).rev() {
                    for f in (0..N_FUNCS).rev() {
                        rows[i][f] = eval(f, &inputs2[i]);
                    }
                }
                rows
            })
            .join()
            .unwrap_or_default();
            ctx.count_n("evaluations", (inputs.len() * N_FUNCS) as u64);
            for (i, (x, y)) in base.iter().zip(rev.iter()).enumerate() {
                for f in 0..N_FUNCS {
                    if x[f] != y[f] {
                        bad = true;
                        ctx.violation(
                            "history_dependence",
                            &format!("history_dependence|{}", FUNC_NAMES[f]),
                            &format!(
                                "{} returned a different result when the same calls were made in the opposite order on a fresh thread (the result depends on earlier calls) on {}",
                                FUNC_NAMES[f], inputs[i].what
                            ),
                            json!({"function": FUNC_NAMES[f], "input": inputs[i].what}),
                            &inputs[i].stream,
                        );
                    }
                }
            }
        }
        // (a°) the same bytes at other memory alignments: slices that start 1..7 bytes past an 8-byte boundary
        for (i, inp) in inputs.iter().enumerate() {
            let off = 1 + (i % 7);
            let shifted = |d: &[u8]| -> Vec<u8> {
                let mut v = vec![0u8; off];
                v.extend_from_slice(d);
                v
            };
            let (s2, p2, c2, f2, k2) = (shifted(&inp.stream), shifted(&inp.plain), shifted(&inp.corr), shifted(&inp.file), shifted(&inp.container));
            let moved = Input {
                stream: Vec::new(),
                file: Vec::new(),
                plain: Vec::new(),
                corr: Vec::new(),
                container: Vec::new(),
                frame: Vec::new(),
                what: String::new(),
            };
            let _ = moved;
            let got = [
                digest_analysis(&cur::analyze(&s2[off..], false)),
                digest_out(&cur::reconstruct(&p2[off..], &c2[off..])),
                digest_out(&cur::expand(&f2[off..])),
                digest_out(&cur::recreate(&k2[off..])),
            ];
            ctx.count_n("evaluations", 4);
            for (slot, f) in [0usize, 2, 3, 4].iter().enumerate() {
                if got[slot] != base[i][*f] {
                    bad = true;
                    ctx.violation(
                        "alignment_dependence",
                        &format!("alignment_dependence|{}", FUNC_NAMES[*f]),
                        &format!(
                            "{} returned a different result for the same bytes in a slice starting {} bytes past an 8-byte boundary on {}",
                            FUNC_NAMES[*f], off, inp.what
                        ),
                        json!({"function": FUNC_NAMES[*f], "offset": off, "input": inp.what}),
                        &inp.stream,
                    );
                }
            }
        }
        // (a'') a call that FAILS must not influence later calls either. Reconstruction from invalid arguments
        // is not safe to run in this process (on the unchanged tree it usually allocates without bound), so
        // the sequence "failing call, then valid calls" runs in a forked child under a small memory cap; a
        // child that dies or hangs is no verdict, a child that survives compares with the baseline
        for (i, inp) in inputs.iter().enumerate().take(6) {
            if inp.plain.len() < 60 || base[i][2] == 0 {
                continue;
            }
            let mut damaged = inp.plain.clone();
            let from = damaged.len() * 2 / 3;
            let at = from + (i * 7919) % (damaged.len() - from);
            damaged[at] ^= 0x5a;
            let verdict = in_child(20, || {
                let _ = cur::reconstruct(&damaged, &inp.corr);
                let mut diff = 0;
                for f in [2usize, 4, 1] {
                    if eval(f, inp) != base[i][f] {
                        diff = f as i32 + 10;
                        break;
                    }
                }
                diff
            });
            ctx.count_n("evaluations", 4);
            match verdict {
                Some(0) => ctx.count("after_failed_call:same_results"),
                // only the three codes the closure itself can return are verdicts; any other status (66 from
                // ThreadSanitizer's runtime giving up under the child's address-space cap, 99 from a panic outside
                // the guarded library calls, a sanitizer's own exit code) is a child that died: no verdict
                Some(code) if code == 11 || code == 12 || code == 14 => {
                    bad = true;
                    let f = (code - 10) as usize;
                    ctx.violation(
                        "failed_call_influences_later_call",
                        &format!("failed_call_influences_later_call|{}", FUNC_NAMES[f.min(N_FUNCS - 1)]),
                        &format!(
                            "after a reconstruction call that failed (plaintext damaged at offset {}), {} returned a different result for unchanged arguments on {}",
                            at, FUNC_NAMES[f.min(N_FUNCS - 1)], inp.what
                        ),
                        json!({"function": FUNC_NAMES[f.min(N_FUNCS - 1)], "input": inp.what, "damaged_at": at}),
                        &inp.stream,
                    );
                }
                Some(code) => {
                    ctx.count("after_failed_call:child_died_or_hung(no verdict)");
                    ctx.count(&format!("after_failed_call:child_exit_status_{}", code));
                }
                None => ctx.count("after_failed_call:child_died_or_hung(no verdict)"),
            }
        }
        // (b) three concurrent phases
        let mut r = Rng::derive(self.seed, 0x1402, k, 0);
        for phase in 0..3 {
            let mut attempts = 0;
            loop {
                attempts += 1;
                let plans: Vec<Vec<(usize, usize)>> = (0..nthreads)
                    .map(|t| match phase {
                        0 => {
                            // all threads: same input, same function, repeated
                            let f = (k as usize + attempts) % N_FUNCS;
                            let i = (k as usize) % inputs.len();
                            vec![(f, i); 6 * attempts]
                        }
                        1 => (0..N_FUNCS).map(|f| (f, (t + f) % inputs.len())).cycle().take(N_FUNCS * attempts).collect(),
                        _ => (0..10 * attempts).map(|_| (r.usize_below(N_FUNCS), r.usize_below(inputs.len()))).collect(),
                    })
                    .collect();
                let ncalls: usize = plans.iter().map(|p| p.len()).sum();
                let (mism, log) = Self::run_threads(&inputs, &base, plans, self.seed ^ k ^ phase as u64, flip && phase == 0);
                let (pairs, maxc) = Self::overlaps(&log);
                ctx.count_n("evaluations", ncalls as u64);
                ctx.count_n(&format!("phase{}:calls", phase), ncalls as u64);
                ctx.count_n(&format!("phase{}:overlapping_call_pairs", phase), pairs);
                ctx.max(&format!("phase{}:calls_in_flight", phase), maxc);
                for (t, f, i, got, want) in mism {
                    bad = true;
                    if t == usize::MAX {
                        ctx.violation(
                            "thread_panicked",
                            "thread_panicked",
                            "a worker thread of the concurrency phase panicked outside the guarded library calls",
                            json!({"phase": phase}),
                            &[],
                        );
                        continue;
                    }
                    ctx.violation(
                        "concurrent_differs",
                        &format!("concurrent_differs|{}", FUNC_NAMES[f]),
                        &format!(
                            "thread {} of {} got digest {:016x} from {} where the sequential baseline has {:016x} (phase {}) on {}",
                            t, nthreads, got, FUNC_NAMES[f], want, phase, inputs[i].what
                        ),
                        json!({"function": FUNC_NAMES[f], "phase": phase, "thread": t, "input": inputs[i].what}),
                        &inputs[i].stream,
                    );
                }
                if pairs > 0 || attempts >= 3 {
                    if pairs == 0 {
                        ctx.count(&format!("phase{}:no_overlap_observed", phase));
                    }
                    break;
                }
            }
        }
        if ctx.want_sample() {
            ctx.sample(json!({"inputs": inputs.iter().take(3).map(|i| i.what.clone()).collect::<Vec<_>>(),
                "baseline_digest": format!("{:016x}", digest_of_baseline(&base))}));
        }
        bad
    }
}

impl C14 {
    /// scale: one stream with several MiB of plaintext in which many estimator candidates tie (stored blocks,
    /// Huffman-only, run-length only, fastest level), called repeatedly and from several threads at once
    fn judge_large(&self, k: u64, ctx: &mut Ctx) -> bool {
        let mut r = Rng::derive(self.seed, 0x1404, k, 0);
        ctx.phase("nonverdict: building a stream with several MiB of plaintext");
        let n = (4 << 20) + 1000 + r.usize_below(3 << 20);
        let p = crate::plain::text(&mut r, n);
        let (level, strategy, what) = [(6, 3, "rle"), (0, 0, "stored"), (1, 0, "level 1"), (6, 2, "huffman-only")][((k / 12) % 4) as usize];
        let d = match crate::comp::zlib_raw(&p, level, strategy, 15, 8, &[]) {
            Some(d) => d,
            None => return false,
        };
        let mut file = wrap::junk_clean(&mut r, 10);
        file.extend(wrap::zlib_wrap(&d, &p, 0x9C));
        let label = format!("zlib {} stream with {} bytes of plaintext ({} compressed)", what, p.len(), d.len());
        ctx.count("large_plaintext_streams");
        ctx.phase("verdict: repeated and concurrent calls on a stream with several MiB of plaintext");
        let stream = Arc::new(d);
        let file = Arc::new(file);
        let base_a = digest_analysis(&cur::analyze(&stream, false));
        let base_e = digest_out(&cur::expand(&file));
        ctx.nontrivial(base_a ^ base_e.rotate_left(17));
        let mut got: Vec<(String, u64, u64)> = vec![];
        for i in 0..2 {
            got.push((format!("sequential repeat {} of decompress_deflate_stream", i + 1), digest_analysis(&cur::analyze(&stream, false)), base_a));
        }
        got.push(("sequential repeat of expand_zlib_chunks".into(), digest_out(&cur::expand(&file)), base_e));
        let mut handles = vec![];
        for t in 0..6 {
            let (stream, file) = (stream.clone(), file.clone());
            handles.push(std::thread::spawn(move || {
                if t % 3 == 2 {
                    (format!("expand_zlib_chunks on thread {} of 6", t), digest_out(&cur::expand(&file)), false)
                } else {
                    (format!("decompress_deflate_stream on thread {} of 6", t), digest_analysis(&cur::analyze(&stream, false)), true)
                }
            }));
        }
        for h in handles {
            if let Ok((w, dgst, is_a)) = h.join() {
                got.push((w, dgst, if is_a { base_a } else { base_e }));
            }
        }
        ctx.count_n("evaluations", got.len() as u64 + 2);
        let mut bad = false;
        for (w, dgst, want) in got {
            if dgst != want {
                bad = true;
                let f = if w.contains("expand") { "expand_zlib_chunks" } else { "decompress_deflate_stream" };
                ctx.violation(
                    "large_input_differs",
                    &format!("large_input_differs|{}", f),
                    &format!("{} returned digest {:016x} where the first call returned {:016x} on {}", w, dgst, want, label),
                    json!({"function": f, "input": label}),
                    &stream[..stream.len().min(4096)],
                );
                break;
            }
        }
        bad
    }

    /// call history at scale: the same calls on this thread before and after one call whose expanded form
    /// exceeds 128 MiB (the only size constant in the crate)
    fn judge_after_huge(&self, k: u64, ctx: &mut Ctx) -> bool {
        ctx.phase("nonverdict: building the input set");
        let inputs = input_set(self.seed, k ^ 0x5151, 4, 8000);
        let funcs = [3usize, 5, 6, 7, 0];
        ctx.phase("verdict: same calls before and after a call with more than 128 MiB of expanded data");
        let before: Vec<Vec<u64>> = inputs.iter().map(|i| funcs.iter().map(|&f| eval(f, i)).collect()).collect();
        let mut r = Rng::derive(self.seed, 0x1403, k, 0);
        let n = (128 << 20) + 1 + r.usize_below(2 << 20);
        {
            let mut f = wrap::junk_clean(&mut r, 1 << 16);
            while f.len() < n {
                let l = (n - f.len()).min(f.len());
                f.extend_from_within(..l);
            }
            let a = cur::zstd_compress(&f);
            let b = c12::call(true, &f, 1 << 20, Place::GuardAfter);
            ctx.count(&format!("huge_call:compress_zstd_{}:wrapper_status_{}", if a.is_ok() { "ok" } else { "not_ok" }, b.status));
        }
        let after: Vec<Vec<u64>> = inputs.iter().map(|i| funcs.iter().map(|&f| eval(f, i)).collect()).collect();
        ctx.count_n("evaluations", (2 * inputs.len() * funcs.len() + 2) as u64);
        ctx.count("histories_with_a_call_above_128MiB");
        let mut bad = false;
        for (i, (x, y)) in before.iter().zip(after.iter()).enumerate() {
            for (j, &f) in funcs.iter().enumerate() {
                if x[j] != y[j] {
                    bad = true;
                    ctx.violation(
                        "history_dependence",
                        &format!("history_dependence|{}|after_huge_call", FUNC_NAMES[f]),
                        &format!(
                            "{} returned a different result for unchanged arguments after a call on this thread whose expanded form was {} bytes (> 128 MiB) on {}",
                            FUNC_NAMES[f], n + 6, inputs[i].what
                        ),
                        json!({"function": FUNC_NAMES[f], "input": inputs[i].what, "huge": n}),
                        &inputs[i].file,
                    );
                }
            }
        }
        bad
    }
}

impl Monitor for C14 {
    fn ncases(&self) -> u64 {
        self.n
    }

    fn cpu_budget_s(&self) -> u64 {
        1200
    }

    fn run_case(&mut self, k: u64, ctx: &mut Ctx) {
        self.judge_set(k, ctx, false);
        if k % 12 == 3 {
            self.judge_large(k, ctx);
        }
        if k % 50 == 5 {
            self.judge_after_huge(k, ctx);
        }
    }

    fn selftest(&mut self) -> Result<String, String> {
        let mut c = Ctx::scratch("C14");
        let me = C14::new(Tier::Quick, 977, 100);
        if me.judge_set(0, &mut c, true) {
            Ok("a digest flipped on one thread was reported as concurrent_differs".into())
        } else {
            Err("flipped digest was not reported".into())
        }
    }
}

//! One monitor per property. A monitor turns a case index into an execution of the real library
//! and judges what it observed; it never needs an expected value.

use crate::ctx::{Ctx, Tier};
use serde_json::{json, Value};

pub mod c01;
pub mod c02;
pub mod c03;
pub mod c04;
pub mod c05;
pub mod c06;
pub mod c07;
pub mod c08;
pub mod c09;
pub mod c10;
pub mod c11;
pub mod c12;
pub mod c13;
pub mod c14;
pub mod tiny;

pub trait Monitor {
    /// number of cases of this run (all shards together)
    fn ncases(&self) -> u64;
    /// CPU-seconds a single case may use before the watchdog calls it a hang candidate
    fn cpu_budget_s(&self) -> u64 {
        60
    }
    fn run_case(&mut self, k: u64, ctx: &mut Ctx);
    /// judge one explicit input (witness files, seeded demonstrations, replays)
    fn judge_file(&mut self, _bytes: &[u8], _ctx: &mut Ctx) {}
    fn can_judge_file(&self, _rec: &Value) -> bool {
        false
    }
    /// a deliberately corrupted observation must make the oracle fire
    fn selftest(&mut self) -> Result<String, String>;
    fn extra(&mut self) -> Value {
        json!({})
    }
}

pub fn create(id: &str, tier: Tier, seed: u64, scale: u64) -> Option<Box<dyn Monitor>> {
    Some(match id {
        "C01" => Box::new(c01::C01::new(tier, seed, scale)),
        "C02" => Box::new(c02::C02::new(tier, seed, scale)),
        "C03" => Box::new(c03::C03::new(tier, seed, scale)),
        "C04" => Box::new(c04::C04::new(tier, seed, scale)),
        "C05" => Box::new(c05::C05::new(tier, seed, scale)),
        "C06" => Box::new(c06::C06::new(tier, seed, scale)),
        "C07" => Box::new(c07::C07::new(tier, seed, scale)),
        "C08" => Box::new(c08::C08::new(tier, seed, scale)),
        "C09" => Box::new(c09::C09::new(tier, seed, scale)),
        "C10" => Box::new(c10::C10::new(tier, seed, scale)),
        "C11" => Box::new(c11::C11::new(tier, seed, scale)),
        "C12" => Box::new(c12::C12::new(tier, seed, scale)),
        "C13" => Box::new(c13::C13::new(tier, seed, scale)),
        "C14" => Box::new(c14::C14::new(tier, seed, scale)),
        _ => return None,
    })
}

pub fn scaled(n: u64, scale: u64) -> u64 {
    (n * scale / 100).max(1)
}

/// exit codes the parser stage can produce: an input that ends there never reached the
/// estimator/predictor/codec
pub fn is_parse_stage_error(code: &str) -> bool {
    matches!(code, "ReadDeflate" | "InvalidDeflate" | "ShortRead" | "AnalyzeFailed" | "ReadBlock")
}

//! C01 — container round trip is exact and total for every byte string.
//!
//! Refuting observations for a file F: `expand_zlib_chunks(F)` panics or returns Err;
//! `recreated_zlib_chunks` on its output panics, returns Err or writes bytes != F; the same through
//! `compress_zstd` / `decompress_zstd`. Diagnosis only: an independent parser of the container
//! format and the `scan_spans` hook check that the chunks' original lengths sum to |F|.

use super::{scaled, tiny, Monitor};
use crate::api::{cur, Out};
use crate::cparse;
use crate::ctx::{hex_prefix, Ctx, Tier};
use crate::rng::{digest_hex, hash64, Rng};
use crate::{streams, wrap};
use serde_json::json;

pub struct C01 {
    tier: Tier,
    seed: u64,
    n_tiny: u64,
    n_edge: u64,
    n_asm: u64,
    n_samples: u64,
}

#[derive(Clone, Copy)]
pub struct Opts {
    pub zstd: bool,
    pub spans: bool,
    pub corrupt: bool,
    pub tiny: bool,
}

fn kind_of<T>(o: &Out<T>) -> String {
    match o {
        Out::Ok(_) => "Ok".into(),
        Out::Err(c) => format!("Err({})", c),
        Out::Panic(s) => format!("panic at {}", s),
    }
}

fn sig_of<T>(what: &str, o: &Out<T>, f: &[u8]) -> String {
    match o {
        Out::Panic(s) => format!("{}|panic|{}", what, s),
        Out::Err(c) => format!("{}|err:{}|{}", what, c, digest_hex(f)),
        Out::Ok(_) => format!("{}|{}", what, digest_hex(f)),
    }
}

impl C01 {
    pub fn new(tier: Tier, seed: u64, scale: u64) -> C01 {
        C01 {
            tier,
            seed,
            n_tiny: tiny::chunks_le3() + tier.pick(0, tiny::chunks_eq4()),
            n_edge: wrap::N_EDGE * tier.pick(20, 400),
            n_asm: scaled(tier.pick(8_000, 100_000), scale),
            n_samples: tier.pick(8, 200),
        }
    }

    pub fn judge(f: &[u8], label: &str, ctx: &mut Ctx, o: Opts) -> bool {
        if !o.tiny {
            ctx.item_bytes(label, f);
        } else if ctx.fine {
            ctx.item_bytes("tiny", f);
        }
        ctx.count("evaluations");
        let case = json!({"label": label});
        let e = cur::expand(f);
        let exp = match e {
            Out::Ok(v) => v,
            other => {
                ctx.violation(
                    "expand_failed",
                    &sig_of("expand_failed", &other, f),
                    &format!("expand_zlib_chunks gave {} on {} ({} bytes)", kind_of(&other), label, f.len()),
                    case,
                    f,
                );
                return true;
            }
        };
        let mut bad = false;
        let mut rec = cur::recreate(&exp);
        if o.corrupt {
            if let Out::Ok(v) = &mut rec {
                match v.last_mut() {
                    Some(x) => *x ^= 1,
                    None => v.push(0),
                }
            }
        }
        match &rec {
            Out::Ok(v) if v[..] == f[..] => {}
            Out::Ok(v) => {
                bad = true;
                let at = v.iter().zip(f.iter()).position(|(a, b)| a != b).unwrap_or(v.len().min(f.len()));
                ctx.violation(
                    "recreate_differs",
                    &sig_of("recreate_differs", &rec, f),
                    &format!(
                        "recreated_zlib_chunks wrote {} bytes, file has {}; first difference at {} on {}",
                        v.len(),
                        f.len(),
                        at,
                        label
                    ),
                    case.clone(),
                    f,
                );
            }
            other => {
                bad = true;
                ctx.violation(
                    "recreate_failed",
                    &sig_of("recreate_failed", other, f),
                    &format!("expand Ok, but recreated_zlib_chunks gave {} on {}", kind_of(other), label),
                    case.clone(),
                    f,
                );
            }
        }
        // what the expansion looks like (independent parser); evidence and diagnosis
        let mut nonlit = 0;
        if !o.tiny || bad {
            match cparse::parse(&exp) {
                Ok(p) => {
                    for c in &p.chunks {
                        ctx.count(["chunks:literal", "chunks:deflate", "chunks:png"][c.kind as usize]);
                        if c.kind != 0 {
                            nonlit += 1;
                        }
                    }
                }
                Err(e) => {
                    // not a verdict: the library's own reader decides; but worth seeing
                    ctx.count("independent_parser_disagrees");
                    ctx.note("independent_parser_disagrees", json!({"how": label, "err": e}));
                }
            }
        }
        if o.spans || bad {
            if let Out::Ok(spans) = cur::scan_spans(f) {
                let total: usize = spans.iter().map(|s| s.1).sum();
                ctx.count("span_conservation_checked");
                if total != f.len() || spans.iter().any(|s| s.1 == 0 && s.0 != 0) {
                    ctx.count("span_conservation_broken");
                    ctx.note(
                        "span_conservation_broken",
                        json!({"how": label, "file_len": f.len(), "sum_of_chunk_lengths": total, "spans": format!("{:?}", spans)}),
                    );
                }
            }
        }
        if o.zstd {
            ctx.count("zstd_roundtrips");
            let c = cur::zstd_compress(f);
            match &c {
                Out::Ok(cb) => {
                    // capacity = size of the intermediate form inside THIS frame (not of a second expansion,
                    // which only equals it if the library is deterministic - that is C14's verdict)
                    let inner = zstd::stream::decode_all(&cb[..]).map(|v| v.len()).unwrap_or(exp.len());
                    let d = cur::zstd_decompress(cb, inner.max(exp.len()) + 64);
                    match &d {
                        Out::Ok(v) if v[..] == f[..] => {}
                        other => {
                            bad = true;
                            ctx.violation(
                                "zstd_roundtrip",
                                &sig_of("zstd_roundtrip", other, f),
                                &format!(
                                    "decompress_zstd(compress_zstd(F), |expand(F)|+64) gave {} instead of F on {}",
                                    match other {
                                        Out::Ok(v) => format!("Ok({} bytes, differing)", v.len()),
                                        x => kind_of(x),
                                    },
                                    label
                                ),
                                case.clone(),
                                f,
                            );
                        }
                    }
                }
                other => {
                    bad = true;
                    ctx.violation(
                        "zstd_compress_failed",
                        &sig_of("zstd_compress_failed", other, f),
                        &format!("compress_zstd gave {} on {}", kind_of(other), label),
                        case.clone(),
                        f,
                    );
                }
            }
        }
        if !o.tiny {
            let sigs = wrap::count_signatures(f);
            if nonlit > 0 || sigs > 0 {
                ctx.nontrivial(hash64(f));
            }
            if nonlit > 0 {
                ctx.count("files_with_expanded_stream");
            }
            ctx.count_n("signature_probes_in_inputs", sigs as u64);
            if ctx.want_sample() && nonlit > 0 {
                ctx.sample(json!({"file": hex_prefix(f, 40), "len": f.len(), "how": label,
                    "expanded_len": exp.len(), "non_literal_chunks": nonlit}));
            }
        }
        bad
    }
}

fn sample_files() -> Vec<(String, Vec<u8>)> {
    let mut v = vec![];
    for n in ["samplezip.zip", "treegdi.png", "sample1.bin.gz", "skiplengthcrash.bin"] {
        if let Ok(b) = std::fs::read(format!("/repo/samples/{}", n)) {
            if !b.is_empty() {
                v.push((n.to_string(), b));
            }
        }
    }
    v
}

impl Monitor for C01 {
    fn ncases(&self) -> u64 {
        self.n_tiny + self.n_edge + self.n_asm + self.n_samples
    }

    fn cpu_budget_s(&self) -> u64 {
        120
    }

    fn run_case(&mut self, k: u64, ctx: &mut Ctx) {
        let mut k = k;
        if k < self.n_tiny {
            let mut i = 0u64;
            let mut f = |s: &[u8]| {
                i += 1;
                let o = Opts {
                    zstd: i % 64 == 0,
                    spans: false,
                    corrupt: false,
                    tiny: true,
                };
                Self::judge(s, "tiny", ctx, o);
            };
            let n = if k < tiny::chunks_le3() {
                tiny::for_chunk_le3(k, &mut f)
            } else {
                tiny::for_chunk_eq4(k - tiny::chunks_le3(), &mut f)
            };
            ctx.count_n("tiny_files_enumerated", n);
            return;
        }
        k -= self.n_tiny;
        let full = Opts {
            zstd: true,
            spans: true,
            corrupt: false,
            tiny: false,
        };
        if k == 2 || k == 4 {
            // scale: a file with a zlib member whose plaintext has tens of MiB / more than 128 MiB
            let mut r = Rng::derive(self.seed, 0x0105, k, 0);
            if let Some(st) = streams::scale_stream(&mut r, (k - 2) / 2) {
                let mut f = wrap::junk_clean(&mut r, 100);
                f.extend(wrap::zlib_wrap(&st.bytes, &st.plain, 0x9C));
                f.extend(wrap::junk_clean(&mut r, 50));
                ctx.count("cases:scale");
                ctx.count(&format!("scale:plaintext_{}MiB", st.plain.len() >> 20));
                Self::judge(&f, &format!("zlib member: {}", st.recipe), ctx, Opts { spans: false, ..full });
            }
            return;
        }
        if k < self.n_edge {
            let mut r = Rng::derive(self.seed, 0x0101, k, 0);
            let g = wrap::edge_case(k, &mut r);
            ctx.count("cases:edge");
            Self::judge(&g.bytes, &g.recipe, ctx, full);
            return;
        }
        k -= self.n_edge;
        if k < self.n_asm {
            let mut r = Rng::derive(self.seed, 0x0102, k, 0);
            let max_plain = self.tier.pick(150_000, 400_000);
            let g = wrap::assemble(&mut r, max_plain, 4);
            ctx.count("cases:assembled");
            ctx.count_n("embedded_streams", g.embedded.len() as u64);
            let spans = r.chance(1, 6);
            Self::judge(
                &g.bytes,
                &g.recipe,
                ctx,
                Opts {
                    spans,
                    ..full
                },
            );
            // 0-3 mutations, applied cumulatively
            let nm = r.usize_below(4);
            let mut cur_bytes = g.bytes.clone();
            let mut how_all = String::new();
            for _ in 0..nm {
                let (how, m) = streams::mutate(&mut r, &cur_bytes, None);
                how_all.push_str(&how);
                how_all.push(';');
                cur_bytes = m;
                Self::judge(
                    &cur_bytes,
                    &format!("{} <- {}", how_all, g.recipe),
                    ctx,
                    Opts {
                        zstd: r.chance(1, 3),
                        spans: false,
                        ..full
                    },
                );
            }
            return;
        }
        k -= self.n_asm;
        let files = sample_files();
        if files.is_empty() {
            ctx.count("sample_files_missing");
            return;
        }
        let mut r = Rng::derive(self.seed, 0x0103, k, 0);
        let (name, b) = &files[(k as usize) % files.len()];
        ctx.count("cases:repo_samples");
        if k < files.len() as u64 {
            Self::judge(b, &format!("repo sample {}", name), ctx, full);
        } else {
            let (how, m) = streams::mutate(&mut r, b, None);
            Self::judge(&m, &format!("{} <- repo sample {}", how, name), ctx, full);
        }
    }

    fn can_judge_file(&self, _rec: &serde_json::Value) -> bool {
        true
    }

    fn judge_file(&mut self, bytes: &[u8], ctx: &mut Ctx) {
        Self::judge(
            bytes,
            "file",
            ctx,
            Opts {
                zstd: true,
                spans: true,
                corrupt: false,
                tiny: false,
            },
        );
    }

    fn selftest(&mut self) -> Result<String, String> {
        let mut r = Rng::new(17);
        let g = wrap::assemble(&mut r, 3000, 2);
        let mut c = Ctx::scratch("C01");
        if Self::judge(
            &g.bytes,
            "selftest",
            &mut c,
            Opts {
                zstd: false,
                spans: false,
                corrupt: true,
                tiny: false,
            },
        ) {
            Ok("a recreated file with one flipped bit was reported as recreate_differs".into())
        } else {
            Err("corrupted recreation was not reported".into())
        }
    }
}

//! Complete enumeration of short byte strings, in chunks that the driver can shard and resume.

pub const CHUNK: u64 = 1 << 16;

/// number of strings of length <= 3
pub const N_LE3: u64 = 1 + 256 + 65536 + 16777216;
/// number of strings of length exactly 4
pub const N_EQ4: u64 = 1 << 32;

pub fn chunks_le3() -> u64 {
    (N_LE3 + CHUNK - 1) / CHUNK
}

pub fn chunks_eq4() -> u64 {
    N_EQ4 / CHUNK
}

/// the `i`-th string of length <= 3 (length-lexicographic order), written into `buf`
pub fn le3(i: u64, buf: &mut [u8; 4]) -> usize {
    if i == 0 {
        0
    } else if i < 1 + 256 {
        buf[0] = (i - 1) as u8;
        1
    } else if i < 1 + 256 + 65536 {
        let v = i - 257;
        buf[0] = (v >> 8) as u8;
        buf[1] = v as u8;
        2
    } else {
        let v = i - 65793;
        buf[0] = (v >> 16) as u8;
        buf[1] = (v >> 8) as u8;
        buf[2] = v as u8;
        3
    }
}

/// run `f` over every string of chunk `c` of the length<=3 space; returns how many were visited
pub fn for_chunk_le3(c: u64, mut f: impl FnMut(&[u8])) -> u64 {
    let lo = c * CHUNK;
    let hi = ((c + 1) * CHUNK).min(N_LE3);
    let mut buf = [0u8; 4];
    for i in lo..hi {
        let n = le3(i, &mut buf);
        f(&buf[..n]);
    }
    hi - lo
}

pub fn for_chunk_eq4(c: u64, mut f: impl FnMut(&[u8])) -> u64 {
    let lo = c * CHUNK;
    for i in lo..lo + CHUNK {
        let b = (i as u32).to_be_bytes();
        f(&b);
    }
    CHUNK
}

//! C07 — DEFLATE parse then re-serialise is the identity on every valid stream.
//!
//! Hook: `verif::parse_and_rewrite(D) -> (W, consumed, plaintext)` = the crate's parser followed
//! directly by its block writer. Refuting observation: the parser accepts and W != D[..consumed];
//! or, for streams of known construction, consumed/plaintext differ from the ground truth.
//! Hook cross-check (harness error, not a violation): whenever the full pipeline accepts D too,
//! W must equal what `recompress_deflate_stream` returns.

use super::{scaled, Monitor};
use crate::api::{cur, Out};
use crate::ctx::{hex_prefix, Ctx, Tier};
use crate::gen::{self, BitW, GenCfg, Tok};
use crate::rng::{hash64, Rng};
use crate::{special, streams};
use serde_json::json;

pub struct C07 {
    tier: Tier,
    seed: u64,
    n_alpha: u64,
    n_pad: u64,
    n_dir: u64,
    n_hdr: u64,
    n_gen: u64,
    n_comp: u64,
    n_shape: u64,
    n_samples: u64,
}

pub struct Truth<'a> {
    pub plain: &'a [u8],
    pub consumed: usize,
}

impl C07 {
    pub fn new(tier: Tier, seed: u64, scale: u64) -> C07 {
        C07 {
            tier,
            seed,
            // 256 length offsets x {fixed, dynamic}: every (length, distance) pair once per code kind
            n_alpha: 768,
            // final-byte padding: 8 bit offsets x 256 fills, 64 streams per case; stored padding likewise
            n_pad: 64,
            // directed dynamic headers: run-length symbol x repeat count, HLIT/HDIST/HCLEN values
            n_dir: 10,
            n_hdr: scaled(tier.pick(2_000, 50_000), scale),
            n_gen: scaled(tier.pick(40_000, 1_000_000), scale),
            n_comp: scaled(tier.pick(8_000, 200_000), scale),
            n_shape: scaled(tier.pick(160, 3_200), scale),
            n_samples: tier.pick(16, 3 * streams::repo_sample_count()),
        }
    }

    pub fn judge(d: &[u8], truth: Option<Truth>, label: &str, cross: bool, ctx: &mut Ctx, corrupt: bool) -> bool {
        ctx.item_bytes(label, d);
        ctx.count("evaluations");
        let out = cur::parse_and_rewrite(d);
        ctx.count(&format!("parse_and_rewrite:{}", out.kind()));
        let case = json!({"label": label});
        let (mut w, consumed, plain) = match out {
            Out::Ok(t) => t,
            Out::Err(c) => {
                if truth.is_some() {
                    // a stream zlib accepts and whose construction we know: rejecting it is allowed
                    // (C07 speaks about streams the parser accepts) but worth counting
                    ctx.count(&format!("known_valid_stream_rejected:{}", c));
                    // ... unless the frozen reference build (pinned + repairs) parses and re-serialises this very
                    // stream: then the parser has lost a well-formed stream it used to handle, and parse-then-write
                    // is no longer the identity on it
                    if let Out::Ok((w0, used0, _)) = crate::api::ref1::parse_and_rewrite(d) {
                        if used0 <= d.len() && w0[..] == d[..used0] {
                            ctx.violation(
                                "valid_stream_no_longer_parsed",
                                &format!("valid_stream_no_longer_parsed|{}", c),
                                &format!(
                                    "a well-formed stream ({} bytes, accepted by zlib) that the reference build parses and rewrites identically is rejected by the current parser with {} on {}",
                                    d.len(), c, label
                                ),
                                case,
                                d,
                            );
                            return true;
                        }
                    }
                    ctx.note(
                        "known_valid_stream_rejected",
                        json!({"how": label, "err": c, "len": d.len(), "input": hex_prefix(d, 200)}),
                    );
                }
                return false;
            }
            Out::Panic(s) => {
                ctx.violation(
                    "panic",
                    &format!("panic|{}", s),
                    &format!("parse/rewrite panicked at {} on {}", s, label),
                    case,
                    d,
                );
                return true;
            }
        };
        if corrupt {
            if let Some(x) = w.last_mut() {
                *x ^= 0x80;
            }
        }
        let mut bad = false;
        ctx.nontrivial(hash64(&d[..consumed.min(d.len())]));
        if consumed > d.len() || w[..] != d[..consumed] {
            bad = true;
            let upto = consumed.min(d.len());
            let at = w.iter().zip(d[..upto].iter()).position(|(x, y)| x != y).unwrap_or(w.len().min(upto));
            ctx.violation(
                "rewrite_differs",
                &format!("rewrite_differs|{}", crate::rng::digest_hex(d)),
                &format!(
                    "rewritten stream ({} bytes) differs from the parsed prefix ({} bytes) first at byte {} on {}",
                    w.len(),
                    consumed,
                    at,
                    label
                ),
                case.clone(),
                d,
            );
        }
        if let Some(t) = truth {
            ctx.count("with_ground_truth");
            if consumed != t.consumed || plain[..] != *t.plain {
                bad = true;
                ctx.violation(
                    "ground_truth_differs",
                    &format!("ground_truth_differs|{}", crate::rng::digest_hex(d)),
                    &format!(
                        "parser reports consumed={} plaintext={} bytes, construction says consumed={} plaintext={} bytes on {}",
                        consumed,
                        plain.len(),
                        t.consumed,
                        t.plain.len(),
                        label
                    ),
                    case.clone(),
                    d,
                );
            }
        }
        if cross && !bad {
            if let Out::Ok(a) = cur::analyze(d, false) {
                if let Out::Ok(rec) = cur::reconstruct(&a.plain, &a.corr) {
                    ctx.count("hook_crosschecks");
                    if rec != w && rec[..] == d[..a.size.min(d.len())] {
                        // the public path reproduces the input but the hook does not: the hook
                        // misrepresents the library
                        ctx.count("hook_crosscheck_failed");
                    }
                }
            }
        }
        if ctx.want_sample() {
            ctx.sample(json!({"input": hex_prefix(d, 48), "len": d.len(), "how": label, "consumed": consumed,
                "plain_len": plain.len()}));
        }
        bad
    }
}

fn apply(plain: &mut Vec<u8>, toks: &[Tok]) {
    for t in toks {
        match *t {
            Tok::Lit(b) => plain.push(b),
            Tok::Ref { len, dist, .. } => {
                let start = plain.len() - dist as usize;
                for i in 0..len as usize {
                    let b = plain[start + i];
                    plain.push(b);
                }
            }
        }
    }
}

/// stream `j` of the exhaustive token-alphabet sweep: a 32 KiB stored preamble, then one block with
/// the reference (3 + (d + j) mod 256, d) for every d in 1..=32768; length 258 is written in both
/// codings. Over j = 0..255 every (length, distance) pair occurs exactly once per code kind.
pub fn alphabet_stream(j: u64, dynamic: bool, deep: bool, r: &mut Rng) -> (Vec<u8>, Vec<u8>, u64) {
    let mut w = BitW::new();
    let pre = r.bytes(32768);
    w.put(0, 1);
    w.put(0, 2);
    w.pad(0);
    w.put(32768, 16);
    w.put(!32768u32 & 0xffff, 16);
    for &b in &pre {
        w.put(b as u32, 8);
    }
    let mut toks = Vec::with_capacity(33000);
    let mut pairs = 0u64;
    for d in 1..=32768u32 {
        let len = 3 + ((d as u64 + j) % 256) as u16;
        toks.push(Tok::Ref {
            len,
            dist: d as u16,
            irr258: false,
        });
        pairs += 1;
        if len == 258 {
            toks.push(Tok::Ref {
                len,
                dist: d as u16,
                irr258: true,
            });
            pairs += 1;
        }
    }
    let mut plain = pre;
    apply(&mut plain, &toks);
    w.put(1, 1);
    if dynamic {
        w.put(2, 2);
        let mut cfg = GenCfg::random(r, 0);
        cfg.max_code_len = 15;
        cfg.code_shape = if deep { 2 } else { 0 };
        cfg.slack = false;
        let (ll, dl) = gen::dynamic_lengths_for(r, &toks, &cfg);
        gen::write_dynamic_header(r, &mut w, &ll, &dl, false, false);
        let (llc, dlc) = (gen::canon_codes(&ll), gen::canon_codes(&dl));
        gen::write_tokens(&mut w, &toks, &ll, &llc, &dl, &dlc);
    } else {
        w.put(1, 2);
        let (ll, dl) = gen::fixed_lengths();
        let (llc, dlc) = (gen::canon_codes(&ll), gen::canon_codes(&dl));
        gen::write_tokens(&mut w, &toks, &ll, &llc, &dl, &dlc);
    }
    w.pad(r.below(256) as u32);
    (w.out, plain, pairs)
}

/// a tiny stream whose last block ends at bit offset `off` (1..7 bits used in the last byte, or 0 =
/// byte aligned) and whose final padding bits are `fill`
fn padding_stream(off: u32, fill: u32, r: &mut Rng) -> Option<(Vec<u8>, Vec<u8>)> {
    // try literal counts until the end-of-block lands on the wanted bit offset
    for n in 0..24usize {
        let mut w = BitW::new();
        w.put(1, 1);
        w.put(1, 2);
        let (ll, dl) = gen::fixed_lengths();
        let (llc, dlc) = (gen::canon_codes(&ll), gen::canon_codes(&dl));
        // literals >= 144 take 9 bits, others 8: mix to reach every offset
        let toks: Vec<Tok> = (0..n).map(|i| Tok::Lit(if i % 3 == 0 { 200 } else { 65 + (i as u8 % 20) })).collect();
        gen::write_tokens(&mut w, &toks, &ll, &llc, &dl, &dlc);
        if w.bitpos() == off {
            let mut plain = vec![];
            apply(&mut plain, &toks);
            w.pad(fill);
            let _ = r;
            return Some((w.out, plain));
        }
    }
    None
}

/// stored block whose 3 header bits start at bit offset `off`, with padding bits `fill`
fn stored_padding_stream(off: u32, fill: u32, r: &mut Rng) -> Option<(Vec<u8>, Vec<u8>)> {
    for n in 0..24usize {
        let mut w = BitW::new();
        w.put(0, 1);
        w.put(1, 2);
        let (ll, dl) = gen::fixed_lengths();
        let (llc, dlc) = (gen::canon_codes(&ll), gen::canon_codes(&dl));
        let toks: Vec<Tok> = (0..n).map(|i| Tok::Lit(if i % 3 == 0 { 200 } else { 65 + (i as u8 % 20) })).collect();
        gen::write_tokens(&mut w, &toks, &ll, &llc, &dl, &dlc);
        if w.bitpos() == off {
            let mut plain = vec![];
            apply(&mut plain, &toks);
            let last = r.chance(1, 2);
            w.put(last as u32, 1);
            w.put(0, 2);
            w.pad(fill);
            let dn = r.usize_below(20);
            let data = r.bytes(dn);
            w.put(data.len() as u32, 16);
            w.put(!(data.len() as u32) & 0xffff, 16);
            for &b in &data {
                w.put(b as u32, 8);
            }
            plain.extend_from_slice(&data);
            if !last {
                w.put(1, 1);
                w.put(1, 2);
                gen::write_tokens(&mut w, &[], &ll, &llc, &dl, &dlc);
                w.pad(r.below(256) as u32);
            }
            return Some((w.out, plain));
        }
    }
    None
}

/// directed dynamic-header shapes: every HLIT/HDIST/HCLEN slack value, each run-length symbol at
/// each legal repeat count
fn header_stream(r: &mut Rng) -> (String, Vec<u8>, Vec<u8>) {
    let n = 1 + r.usize_below(60);
    let toks: Vec<Tok> = (0..n).map(|_| Tok::Lit(*r.pick(b"abcdefgh\x00\xff"))).collect();
    let mut plain = vec![];
    apply(&mut plain, &toks);
    let mut cfg = GenCfg::random(r, 0);
    cfg.max_code_len = 15;
    let (mut ll, dl) = gen::dynamic_lengths_for(r, &toks, &cfg);
    let what = r.below(3);
    let mut w = BitW::new();
    w.put(1, 1);
    w.put(2, 2);
    let label;
    if what == 0 {
        // a zero run of an exact length somewhere above the used literals: exercises 17/18 counts
        let _ = &mut ll;
        label = "dynamic header, generator run-length choices".to_string();
        gen::write_dynamic_header(r, &mut w, &ll, &dl, true, false);
    } else if what == 1 {
        label = "dynamic header without run-length symbols".to_string();
        gen::write_dynamic_header(r, &mut w, &ll, &dl, true, true);
    } else {
        label = "dynamic header, greedy run-lengths".to_string();
        gen::write_dynamic_header(r, &mut w, &ll, &dl, false, false);
    }
    let (llc, dlc) = (gen::canon_codes(&ll), gen::canon_codes(&dl));
    gen::write_tokens(&mut w, &toks, &ll, &llc, &dl, &dlc);
    w.pad(r.below(256) as u32);
    (label, w.out, plain)
}

/// one dynamic block "a...a" under an explicitly shaped header; judged with ground truth if zlib agrees
fn one_directed(ll: &[u8], rle_style: u32, hlit: usize, hdist: usize, hclen_extra: usize, what: &str, r: &mut Rng, ctx: &mut Ctx) {
    let first = ll.iter().position(|&l| l != 0).unwrap_or(97);
    let n = 1 + r.usize_below(6);
    let toks: Vec<Tok> = vec![Tok::Lit(first as u8); n];
    let mut dl = vec![0u8; 30];
    dl[0] = 1;
    dl[1] = 1;
    let mut w = BitW::new();
    w.put(1, 1);
    w.put(2, 2);
    if !gen::write_dynamic_header_exact(r, &mut w, ll, &dl, rle_style, hlit, hdist, hclen_extra) {
        ctx.count("directed_header_not_constructible");
        return;
    }
    let (llc, dlc) = (gen::canon_codes(ll), gen::canon_codes(&dl));
    gen::write_tokens(&mut w, &toks, ll, &llc, &dl, &dlc);
    w.pad(r.below(256) as u32);
    let d = w.out;
    let plain = vec![first as u8; n];
    match crate::comp::zlib_inflate_raw(&d, plain.len() + 64) {
        Some((zp, used)) if zp == plain && used == d.len() => {
            C07::judge(
                &d,
                Some(Truth {
                    plain: &plain,
                    consumed: d.len(),
                }),
                what,
                false,
                ctx,
                false,
            );
            ctx.count("directed_headers");
        }
        _ => ctx.count("generator_rejected"),
    }
}

/// one dynamic block of a few literals whose header declares `hlit` literal/length and `hdist` distance
/// code lengths and gives the LAST declared symbol of each alphabet a code
fn exotic_alphabet_stream(r: &mut Rng, hlit: usize, hdist: usize) -> Vec<u8> {
    let a = b'a' + r.below(20) as u8;
    let mut ll = vec![0u8; hlit];
    // which of the three coded symbols gets the 1-bit code (if it is the out-of-range one, every other code
    // depends on it being counted)
    let short = r.below(3);
    ll[a as usize] = if short == 0 { 1 } else { 2 };
    ll[256] = if short == 1 { 1 } else { 2 };
    ll[hlit - 1] = if short == 2 { 1 } else { 2 };
    let mut dl = vec![0u8; hdist];
    dl[0] = 1;
    dl[hdist - 1] = 1;
    let mut all = ll.clone();
    all.extend_from_slice(&dl);
    let style = if r.chance(1, 2) { 0 } else { 2 };
    let rle = gen::rle_lengths(r, &all, style);
    let mut cu = vec![false; 19];
    let mut cf = vec![0u32; 19];
    for &(s, _) in &rle {
        cu[s as usize] = true;
        cf[s as usize] += 1;
    }
    let cl = gen::lengths_for_used(r, &cu, &cf, 7, true, 0);
    let mut hclen = 19;
    while hclen > 4 && cl[gen::CL_ORDER[hclen - 1]] == 0 {
        hclen -= 1;
    }
    let mut w = BitW::new();
    w.put(1, 1);
    w.put(2, 2);
    w.put((hlit - 257) as u32, 5);
    w.put((hdist - 1) as u32, 5);
    w.put((hclen - 4) as u32, 4);
    for i in 0..hclen {
        w.put(cl[gen::CL_ORDER[i]] as u32, 3);
    }
    let clc = gen::canon_codes(&cl);
    for &(s, x) in &rle {
        w.put_code(clc[s as usize], cl[s as usize] as u32);
        match s {
            16 => w.put(x as u32, 2),
            17 => w.put(x as u32, 3),
            18 => w.put(x as u32, 7),
            _ => {}
        }
    }
    let llc = gen::canon_codes(&ll);
    let n = 1 + r.usize_below(12);
    for _ in 0..n {
        w.put_code(llc[a as usize], ll[a as usize] as u32);
    }
    w.put_code(llc[256], ll[256] as u32);
    w.pad(r.below(256) as u32);
    w.out
}

fn directed_headers(k: u64, r: &mut Rng, ctx: &mut Ctx) {
    match k {
        // symbol 17 / 18 with every legal repeat count (zero runs of 3..=138 between two used literals)
        0 | 1 => {
            for gap in 3..=138usize {
                let first = if k == 0 { 40 } else { 97 };
                let ll = gen::directed_lengths(first, 1, gap);
                let hlit = 257;
                one_directed(&ll, 0, hlit, 2, 0, &format!("zero run of {} (symbol {})", gap, if gap >= 11 { 18 } else { 17 }), r, ctx);
                ctx.count(if gap >= 11 { "rle18_counts" } else { "rle17_counts" });
            }
        }
        // symbol 16 with every legal repeat count, after non-zero lengths
        2 => {
            for m in 4..=7usize {
                for first in [0usize, 97, 200] {
                    let ll = gen::directed_lengths(first, m, 5);
                    one_directed(&ll, 0, 257, 2, 0, &format!("{} equal lengths (symbol 16 x{})", m, m - 1), r, ctx);
                    ctx.count("rle16_counts");
                }
            }
        }
        // the same shapes without any run-length symbol, and with random legal splits
        3 => {
            for gap in [3usize, 10, 11, 138] {
                for style in [1u32, 2] {
                    let ll = gen::directed_lengths(97, 1, gap);
                    one_directed(&ll, style, 257, 2, 0, &format!("zero run of {} coded with style {}", gap, style), r, ctx);
                }
            }
        }
        // every HLIT value (257..=286) over a code that needs only 257 symbols
        4 => {
            let ll = gen::directed_lengths(40, 1, 5);
            for hlit in 257..=286usize {
                one_directed(&ll, 0, hlit, 2, 0, &format!("HLIT={}", hlit), r, ctx);
                ctx.count("hlit_values");
            }
        }
        // every HDIST value (2..=30; both distance codes of the test code are needed)
        5 => {
            let ll = gen::directed_lengths(40, 1, 5);
            for hdist in 2..=30usize {
                one_directed(&ll, 0, 257, hdist, 0, &format!("HDIST={}", hdist), r, ctx);
                ctx.count("hdist_values");
            }
        }
        // every HCLEN slack value
        6 => {
            let ll = gen::directed_lengths(40, 1, 5);
            for extra in 0..=15usize {
                one_directed(&ll, 0, 257, 2, extra, &format!("HCLEN slack +{}", extra), r, ctx);
                ctx.count("hclen_values");
            }
        }
        // headers declaring more symbols than RFC 1951 defines (HLIT 287/288, HDIST 31/32) with codes on the
        // extra symbols: zlib rejects them, this parser accepts them, so they are in C07's domain ("all streams
        // the parser accepts"); no ground truth, only the identity
        7 => {
            for (hlit, hdist) in [(287usize, 2usize), (288, 2), (258, 31), (258, 32), (288, 32), (286, 30)] {
                for _ in 0..8 {
                    let d = exotic_alphabet_stream(r, hlit, hdist);
                    C07::judge(&d, None, &format!("header with HLIT={} HDIST={} and codes on the last symbols", hlit, hdist), false, ctx, false);
                    ctx.count("exotic_alphabet_headers");
                }
            }
        }
        // consecutive blocks transmitting one code-length sequence with the HLIT/HDIST split moved by one
        8 => {
            for _ in 0..60 {
                let (d, p) = crate::mon::c03::split_shift_stream(r);
                if d.is_empty() {
                    continue;
                }
                match crate::comp::zlib_inflate_raw(&d, p.len() + 64) {
                    Some((zp, used)) if zp == p && used == d.len() => {
                        C07::judge(
                            &d,
                            Some(Truth {
                                plain: &p,
                                consumed: d.len(),
                            }),
                            "blocks sharing one code-length sequence with the HLIT/HDIST split moved by one",
                            false,
                            ctx,
                            false,
                        );
                        ctx.count("split_shift_streams");
                    }
                    _ => ctx.count("generator_rejected"),
                }
            }
        }
        // combinations
        _ => {
            for _ in 0..200 {
                let gap = 3 + r.usize_below(136);
                let m = 1 + r.usize_below(7);
                let first = r.usize_below(100);
                let ll = gen::directed_lengths(first, m, gap);
                let hlit = 257 + r.usize_below(30);
                let hdist = 2 + r.usize_below(29);
                let style = r.below(3) as u32;
                let extra = r.usize_below(6);
                one_directed(&ll, style, hlit, hdist, extra, "directed header, random combination", r, ctx);
            }
        }
    }
}

impl Monitor for C07 {
    fn ncases(&self) -> u64 {
        self.n_alpha + self.n_pad + self.n_dir + self.n_hdr + self.n_gen + self.n_comp + self.n_shape + self.n_samples
    }

    fn run_case(&mut self, k: u64, ctx: &mut Ctx) {
        let mut k = k;
        if k < self.n_alpha {
            let mut r = Rng::derive(self.seed, 0x0700, k, 0);
            let dynamic = k >= 256;
            let deep = k >= 512;
            let j = k % 256;
            let (d, plain, pairs) = alphabet_stream(j, dynamic, deep, &mut r);
            let before = ctx.violations;
            let accepted_before = *ctx.counters.get("parse_and_rewrite:ok").unwrap_or(&0);
            Self::judge(
                &d,
                Some(Truth {
                    plain: &plain,
                    consumed: d.len(),
                }),
                &format!("token alphabet sweep j={} ({})", j, if deep { "dynamic, deep inverted code" } else if dynamic { "dynamic" } else { "fixed" }),
                false,
                ctx,
                false,
            );
            let accepted = *ctx.counters.get("parse_and_rewrite:ok").unwrap_or(&0) > accepted_before;
            if ctx.violations == before && accepted {
                ctx.count_n(if deep { "alphabet_pairs_dynamic_deep" } else if dynamic { "alphabet_pairs_dynamic" } else { "alphabet_pairs_fixed" }, pairs);
            }
            return;
        }
        k -= self.n_alpha;
        if k < self.n_pad {
            // 64 cases x 64 streams = all 8 x 256 (offset, fill) pairs, for final and stored padding
            let mut r = Rng::derive(self.seed, 0x0701, k, 0);
            for i in 0..64u64 {
                let idx = k * 64 + i; // 0..4095
                let stored = idx >= 2048;
                let idx = idx % 2048;
                let (off, fill) = ((idx / 256) as u32, (idx % 256) as u32);
                let s = if stored {
                    stored_padding_stream(off, fill, &mut r)
                } else {
                    padding_stream(off, fill, &mut r)
                };
                match s {
                    Some((d, plain)) => {
                        Self::judge(
                            &d,
                            Some(Truth {
                                plain: &plain,
                                consumed: d.len(),
                            }),
                            &format!("{} padding offset={} fill={:#04x}", if stored { "stored" } else { "final" }, off, fill),
                            false,
                            ctx,
                            false,
                        );
                        ctx.count(if stored { "padding_patterns_stored" } else { "padding_patterns_final" });
                    }
                    None => ctx.count("padding_offset_unreachable"),
                }
            }
            return;
        }
        k -= self.n_pad;
        if k < self.n_dir {
            let mut r = Rng::derive(self.seed, 0x0706, k, 0);
            directed_headers(k, &mut r, ctx);
            return;
        }
        k -= self.n_dir;
        if k < self.n_hdr {
            let mut r = Rng::derive(self.seed, 0x0702, k, 0);
            for _ in 0..10 {
                let (label, d, plain) = header_stream(&mut r);
                // only streams zlib confirms are used with ground truth
                match crate::comp::zlib_inflate_raw(&d, plain.len() + 64) {
                    Some((zp, used)) if zp == plain && used == d.len() => {
                        Self::judge(
                            &d,
                            Some(Truth {
                                plain: &plain,
                                consumed: d.len(),
                            }),
                            &label,
                            false,
                            ctx,
                            false,
                        );
                    }
                    _ => ctx.count("generator_rejected"),
                }
            }
            return;
        }
        k -= self.n_hdr;
        let max_plain = self.tier.pick(200_000, 500_000);
        if k < self.n_gen {
            let mut r = Rng::derive(self.seed, 0x0703, k, 0);
            match streams::generator_stream(&mut r, max_plain) {
                Some(s) => {
                    let cross = false;
                    Self::judge(
                        &s.bytes,
                        Some(Truth {
                            plain: &s.plain,
                            consumed: s.bytes.len(),
                        }),
                        &format!("generator: {}", s.recipe),
                        cross,
                        ctx,
                        false,
                    );
                    // trailing garbage must not be consumed or rewritten
                    let mut v = s.bytes.clone();
                    let gn = 1 + r.usize_below(16);
                    v.extend(r.bytes(gn));
                    Self::judge(
                        &v,
                        Some(Truth {
                            plain: &s.plain,
                            consumed: s.bytes.len(),
                        }),
                        &format!("+garbage <- generator: {}", s.recipe),
                        false,
                        ctx,
                        false,
                    );
                    let (how, m) = streams::mutate(&mut r, &s.bytes, None);
                    Self::judge(&m, None, &format!("{} <- generator: {}", how, s.recipe), false, ctx, false);
                }
                None => ctx.count("generator_rejected"),
            }
            return;
        }
        k -= self.n_gen;
        if k < self.n_comp {
            let mut r = Rng::derive(self.seed, 0x0704, k, 0);
            let s = streams::compressor_stream(&mut r, max_plain, None);
            let cross = false;
            Self::judge(
                &s.bytes,
                Some(Truth {
                    plain: &s.plain,
                    consumed: s.bytes.len(),
                }),
                &format!("{}: {}", streams::SOURCE_NAMES[s.source], s.recipe),
                cross,
                ctx,
                false,
            );
            return;
        }
        k -= self.n_comp;
        if k >= self.n_shape {
            let idx = k - self.n_shape;
            let mut r = Rng::derive(self.seed, 0x0707, idx, 0);
            let pick = if self.tier == Tier::Quick { r.below(1000) } else { idx };
            match streams::repo_sample(pick) {
                Some((name, b)) => {
                    Self::judge(&b, None, &format!("repo sample: {}", name), false, ctx, false);
                    let (how, m) = streams::mutate(&mut r, &b, None);
                    Self::judge(&m, None, &format!("{} <- repo sample: {}", how, name), false, ctx, false);
                }
                None => ctx.count("repo_samples_missing"),
            }
            return;
        }
        let mut r = Rng::derive(self.seed, 0x0705, k, 0);
        let (name, d, p) = special::shape(k, &mut r);
        match crate::comp::zlib_inflate_raw(&d, p.len() + 1024) {
            Some((zp, used)) if zp == p && used == d.len() => {
                Self::judge(
                    &d,
                    Some(Truth {
                        plain: &p,
                        consumed: d.len(),
                    }),
                    &format!("shape: {}", name),
                    false,
                    ctx,
                    false,
                );
            }
            _ => ctx.count("generator_rejected"),
        }
    }

    fn can_judge_file(&self, _rec: &serde_json::Value) -> bool {
        true
    }

    fn judge_file(&mut self, bytes: &[u8], ctx: &mut Ctx) {
        Self::judge(bytes, None, "file", true, ctx, false);
    }

    fn selftest(&mut self) -> Result<String, String> {
        let mut r = Rng::new(13);
        let s = streams::compressor_stream(&mut r, 2000, Some(0));
        if !cur::parse_and_rewrite(&s.bytes).is_ok() {
            return Ok("skipped: parser rejected a zlib stream, nothing to corrupt".into());
        }
        let mut c = Ctx::scratch("C07");
        if Self::judge(&s.bytes, None, "selftest", false, &mut c, true) {
            Ok("a rewritten stream with one flipped bit was reported as rewrite_differs".into())
        } else {
            Err("corrupted rewrite was not reported".into())
        }
    }
}

//! C02 — stream split/reconstruct is bit-exact whenever the split succeeds.
//!
//! Refuting observations, for an input D:
//!  * `decompress_deflate_stream(D, v)` = Ok(r) and `recompress_deflate_stream(r.plain, r.corr)` is not
//!    Ok(D[..r.size]) (wrong bytes, Err, panic; a hang is caught by the watchdog);
//!  * the two verify settings do not return the same r (Ok/Ok with different fields, or Ok/not-Ok);
//!  * analysing D[..r.size] alone, or D[..r.size] followed by other bytes, gives a different r.

use super::{scaled, Monitor};
use crate::api::{cur, Analysis, Out};
use crate::ctx::{hex_prefix, Ctx, Tier};
use crate::rng::{hash64, Rng};
use crate::{special, streams};
use serde_json::json;

pub struct C02 {
    tier: Tier,
    seed: u64,
    n_gen: u64,
    n_comp: u64,
    n_shape: u64,
    n_samples: u64,
    n_dense: u64,
}

fn first_diff(a: &[u8], b: &[u8]) -> usize {
    a.iter().zip(b.iter()).position(|(x, y)| x != y).unwrap_or(a.len().min(b.len()))
}

fn same(a: &Analysis, b: &Analysis) -> bool {
    a == b
}

impl C02 {
    pub fn new(tier: Tier, seed: u64, scale: u64) -> C02 {
        C02 {
            tier,
            seed,
            n_gen: scaled(tier.pick(15_000, 240_000), scale),
            n_comp: scaled(tier.pick(9_000, 160_000), scale),
            n_shape: scaled(tier.pick(160, 3_200), scale),
            n_samples: tier.pick(16, 3 * streams::repo_sample_count()),
            n_dense: scaled(tier.pick(240, 6_000), scale),
        }
    }

    /// `corrupt` is only used by the self-test: it flips one byte of the reconstruction before the
    /// oracle sees it.
    pub fn judge(d: &[u8], label: &str, r: &mut Rng, ctx: &mut Ctx, corrupt: bool) -> bool {
        ctx.item_bytes(label, d);
        ctx.count("evaluations");
        ctx.phase("nonverdict: analysis (totality of the analysis is C05's verdict)");
        let rf = cur::analyze(d, false);
        let rt = cur::analyze(d, true);
        ctx.count(&format!("analyze(verify=false):{}", rf.kind()));
        ctx.count(&format!("analyze(verify=true):{}", rt.kind()));
        let case = json!({"label": label});
        let mut bad = false;
        // (b) both verify settings return the same r
        match (&rf, &rt) {
            (Out::Ok(a), Out::Ok(b)) => {
                if !same(a, b) {
                    bad = true;
                    ctx.violation(
                        "verify_disagree",
                        &format!("verify_disagree|fields|{}", crate::rng::digest_hex(d)),
                        &format!(
                            "verify=false and verify=true both Ok but differ (size {} vs {}, corrections {} vs {} bytes) on {}",
                            a.size, b.size, a.corr.len(), b.corr.len(), label
                        ),
                        case.clone(),
                        d,
                    );
                }
            }
            (Out::Ok(_), other) | (other, Out::Ok(_)) => {
                bad = true;
                let which = if rf.is_ok() { "verify=false Ok" } else { "verify=true Ok" };
                let sig = match other {
                    Out::Panic(s) => format!("verify_disagree|panic|{}", s),
                    Out::Err(c) => format!("verify_disagree|err:{}|{}", c, crate::rng::digest_hex(d)),
                    _ => unreachable!(),
                };
                ctx.violation(
                    "verify_disagree",
                    &sig,
                    &format!("{} but the other setting gave {:?} on {}", which, kind_of(other), label),
                    case.clone(),
                    d,
                );
            }
            _ => {}
        }
        let a = match rf.as_ok().or(rt.as_ok()) {
            Some(a) => a.clone(),
            None => return false,
        };
        ctx.nontrivial(hash64(&d[..a.size.min(d.len())]));
        ctx.count(if a.params.contains("Lazy") { "modelled:lazy" } else if a.params.contains("hash_algorithm: None") { "modelled:no_dictionary" } else { "modelled:greedy" });
        // (a) reconstruction reproduces exactly the consumed prefix
        for (name, r) in [("verify=false", &rf), ("verify=true", &rt)] {
            let a = match r.as_ok() {
                Some(a) => a,
                None => continue,
            };
            if name == "verify=true" && rf.as_ok().map_or(false, |f| same(f, a)) {
                continue; // identical arguments: the call below was already judged
            }
            if a.size > d.len() {
                bad = true;
                ctx.violation(
                    "size_out_of_range",
                    &format!("size_out_of_range|{}", crate::rng::digest_hex(d)),
                    &format!("compressed_size {} > input length {} on {}", a.size, d.len(), label),
                    case.clone(),
                    d,
                );
                continue;
            }
            ctx.phase("verdict: reconstruction of an accepted stream");
            let mut rec = cur::reconstruct(&a.plain, &a.corr);
            if corrupt {
                if let Out::Ok(v) = &mut rec {
                    if let Some(x) = v.last_mut() {
                        *x ^= 1;
                    }
                }
            }
            ctx.count(&format!("reconstruct:{}", rec.kind()));
            match rec {
                Out::Ok(bytes) => {
                    if bytes[..] != d[..a.size] {
                        bad = true;
                        let at = first_diff(&bytes, &d[..a.size]);
                        ctx.violation(
                            "reconstruct_mismatch",
                            &format!("reconstruct_mismatch|{}", crate::rng::digest_hex(d)),
                            &format!(
                                "accepted with {} but reconstructed differently: first difference at byte {} (lengths {} vs {}) on {}",
                                name,
                                at,
                                bytes.len(),
                                a.size,
                                label
                            ),
                            case.clone(),
                            d,
                        );
                    }
                }
                Out::Err(c) => {
                    bad = true;
                    ctx.violation(
                        "reconstruct_err",
                        &format!("reconstruct_err|{}|{}", c, crate::rng::digest_hex(d)),
                        &format!("accepted with {} but reconstruction returned Err({}) on {}", name, c, label),
                        case.clone(),
                        d,
                    );
                }
                Out::Panic(s) => {
                    bad = true;
                    ctx.violation(
                        "reconstruct_panic",
                        &format!("reconstruct_panic|{}", s),
                        &format!("accepted with {} but reconstruction panicked at {} on {}", name, s, label),
                        case.clone(),
                        d,
                    );
                }
            }
        }
        // (c) the result depends only on D[..size]
        if a.size <= d.len() {
            let mut variants: Vec<(String, Vec<u8>)> = vec![];
            if a.size < d.len() {
                variants.push(("truncated to compressed_size".into(), d[..a.size].to_vec()));
            }
            let mut v = d[..a.size].to_vec();
            let n = 1 + r.usize_below(64);
            v.extend(r.bytes(n));
            variants.push((format!("+{} junk bytes", n), v));
            if r.chance(1, 4) {
                // a second valid-looking stream right behind
                let mut v = d[..a.size].to_vec();
                v.extend_from_slice(&d[..a.size.min(200)]);
                variants.push(("followed by its own beginning".into(), v));
            }
            for (how, v) in variants {
                let verify = r.chance(1, 4);
                ctx.phase("nonverdict: analysis of a suffix variant");
                let r2 = cur::analyze(&v, verify);
                ctx.count("suffix_variants");
                match &r2 {
                    Out::Ok(b) if same(&a, b) => {}
                    other => {
                        bad = true;
                        ctx.violation(
                            "suffix_dependence",
                            &format!("suffix_dependence|{}", crate::rng::digest_hex(d)),
                            &format!(
                                "result changed when the input was {} (verify={}): {} on {}",
                                how,
                                verify,
                                match other {
                                    Out::Ok(b) => format!(
                                        "Ok with size {} vs {}, corrections {} vs {}",
                                        b.size,
                                        a.size,
                                        b.corr.len(),
                                        a.corr.len()
                                    ),
                                    o => kind_of(o),
                                },
                                label
                            ),
                            case.clone(),
                            d,
                        );
                    }
                }
            }
        }
        // evidence: which codec contexts were exercised with non-default values
        if r.chance(1, 25) {
            if let Out::Ok(ops) = cur::analyze_ops(&d[..a.size.min(d.len())]) {
                for op in ops {
                    match op {
                        cur::Op::Correction(c, v) if v != 0 => ctx.count(&format!("nondefault:correction:{}", c)),
                        cur::Op::Misprediction(c, true) => ctx.count(&format!("nondefault:misprediction:{}", c)),
                        _ => {}
                    }
                }
                ctx.count("op_traces_sampled");
            }
        }
        if ctx.want_sample() {
            ctx.sample(json!({"input": hex_prefix(d, 48), "len": d.len(), "how": label,
                "compressed_size": a.size, "plain_len": a.plain.len(), "corrections_len": a.corr.len()}));
        }
        bad
    }
}

fn kind_of<T>(o: &Out<T>) -> String {
    match o {
        Out::Ok(_) => "Ok".into(),
        Out::Err(c) => format!("Err({})", c),
        Out::Panic(s) => format!("panic at {}", s),
    }
}

impl Monitor for C02 {
    fn ncases(&self) -> u64 {
        self.n_gen + self.n_comp + self.n_shape + self.n_samples + self.n_dense
    }

    fn cpu_budget_s(&self) -> u64 {
        // worst legitimate cost: ~20 CPU-s per analysis of 400 KB of two-symbol noise (chain walks of 4096)
        self.tier.pick(120, 400)
    }

    fn run_case(&mut self, k: u64, ctx: &mut Ctx) {
        let max_plain = self.tier.pick(200_000, 500_000);
        if k == 11 || k == 21 || k == 31 {
            // scale: plaintext of several MiB up to beyond 128 MiB
            let mut r = Rng::derive(self.seed, 0x0206, k, 0);
            if let Some(st) = streams::scale_stream(&mut r, (k - 11) / 10) {
                ctx.count("source:scale");
                ctx.count(&format!("scale:plaintext_{}MiB", st.plain.len() >> 20));
                Self::judge(&st.bytes, &st.recipe, &mut r, ctx, false);
            }
            return;
        }
        let (label, base, mut r) = if k >= self.n_gen + self.n_comp + self.n_shape + self.n_samples {
            let idx = k - (self.n_gen + self.n_comp + self.n_shape + self.n_samples);
            let mut r = Rng::derive(self.seed, 0x0205, idx, 0);
            let s = streams::boundary_dense_stream(&mut r, 150_000);
            (s.recipe.clone(), s.bytes, r)
        } else if k < self.n_gen {
            let mut r = Rng::derive(self.seed, 0x0201, k, 0);
            match streams::generator_stream(&mut r, max_plain) {
                Some(s) => (format!("generator: {}", s.recipe), s.bytes, r),
                None => {
                    ctx.count("generator_rejected");
                    return;
                }
            }
        } else if k < self.n_gen + self.n_comp {
            let mut r = Rng::derive(self.seed, 0x0202, k - self.n_gen, 0);
            let s = streams::compressor_stream(&mut r, max_plain, None);
            (format!("{}: {}", streams::SOURCE_NAMES[s.source], s.recipe), s.bytes, r)
        } else if k >= self.n_gen + self.n_comp + self.n_shape {
            let idx = k - self.n_gen - self.n_comp - self.n_shape;
            let mut r = Rng::derive(self.seed, 0x0204, idx, 0);
            let pick = if self.tier == Tier::Quick { r.below(1000) } else { idx };
            match streams::repo_sample(pick) {
                Some((name, b)) => (format!("repo sample: {}", name), b, r),
                None => {
                    ctx.count("repo_samples_missing");
                    return;
                }
            }
        } else {
            let idx = k - self.n_gen - self.n_comp;
            let mut r = Rng::derive(self.seed, 0x0203, idx, 0);
            let (name, d, p) = special::shape(idx, &mut r);
            match crate::comp::zlib_inflate_raw(&d, p.len() + 1024) {
                Some((zp, used)) if zp == p && used == d.len() => {}
                _ => {
                    ctx.count("generator_rejected");
                    return;
                }
            }
            (format!("shape: {}", name), d, r)
        };
        ctx.count(&format!("source:{}", label.split(':').next().unwrap_or("?")));
        Self::judge(&base, &label, &mut r, ctx, false);
        // mutants: most are rejected, the accepted ones are the interesting ones
        let nm = if base.len() > 50_000 { 1 } else { 3 };
        for _ in 0..nm {
            let (how, m) = streams::mutate(&mut r, &base, None);
            Self::judge(&m, &format!("{} <- {}", how, label), &mut r, ctx, false);
        }
    }

    fn can_judge_file(&self, _rec: &serde_json::Value) -> bool {
        true
    }

    fn judge_file(&mut self, bytes: &[u8], ctx: &mut Ctx) {
        let mut r = Rng::new(self.seed);
        Self::judge(bytes, "file", &mut r, ctx, false);
    }

    fn selftest(&mut self) -> Result<String, String> {
        // a reconstruction with one flipped bit must be reported
        let mut r = Rng::new(7);
        for _ in 0..20 {
            let s = streams::compressor_stream(&mut r, 3000, Some(0));
            if !cur::analyze(&s.bytes, false).is_ok() {
                continue;
            }
            let mut c = Ctx::scratch("C02");
            return if Self::judge(&s.bytes, "selftest", &mut r, &mut c, true) {
                Ok("a reconstruction with one flipped bit was reported as reconstruct_mismatch".into())
            } else {
                Err("corrupted reconstruction was not reported".into())
            };
        }
        Ok("skipped: the library accepted none of 20 zlib streams, nothing to corrupt".into())
    }
}

//! C03 — recovered plaintext and consumed length agree with a reference inflater (zlib, raw mode).
//!
//! Refuting observation: the library and zlib's inflate both accept D, and plain_text differs from
//! zlib's output or compressed_size differs from the bytes zlib consumed; for compressor-made
//! streams additionally plain_text differs from the plaintext that was compressed.

use super::{scaled, Monitor};
use crate::api::{cur, Out};
use crate::comp;
use crate::ctx::{hex_prefix, Ctx, Tier};
use crate::gen::{self, Tok};
use crate::rng::{hash64, Rng};
use crate::{special, streams};
use serde_json::json;

pub struct C03 {
    tier: Tier,
    seed: u64,
    n_sweep: u64,
    n_gen: u64,
    n_comp: u64,
    n_shape: u64,
    n_samples: u64,
}

impl C03 {
    pub fn new(tier: Tier, seed: u64, scale: u64) -> C03 {
        C03 {
            tier,
            seed,
            n_sweep: tier.pick(100, 2_000),
            n_gen: scaled(tier.pick(30_000, 750_000), scale),
            n_comp: scaled(tier.pick(20_000, 500_000), scale),
            n_shape: scaled(tier.pick(160, 3_200), scale),
            n_samples: tier.pick(16, 3 * streams::repo_sample_count()),
        }
    }

    /// `truth`: plaintext known to the producer of the stream (compressors, generator)
    pub fn judge(d: &[u8], truth: Option<&[u8]>, label: &str, ctx: &mut Ctx, corrupt: bool) -> bool {
        Self::judge_cap(d, truth, label, ctx, corrupt, 64 << 20)
    }

    /// `cap`: how much output zlib's inflate may produce before the comparison is abandoned
    pub fn judge_cap(d: &[u8], truth: Option<&[u8]>, label: &str, ctx: &mut Ctx, corrupt: bool, cap: usize) -> bool {
        ctx.item_bytes(label, &d[..d.len().min(1 << 20)]);
        ctx.count("evaluations");
        ctx.phase("nonverdict: analysis (totality of the analysis is C05's verdict)");
        let lib = cur::analyze(d, false);
        let z = comp::zlib_inflate_raw(d, cap);
        ctx.count(&format!(
            "accept:lib={},zlib={}",
            lib.is_ok() as u8,
            z.is_some() as u8
        ));
        let mut a = match lib {
            Out::Ok(a) => a,
            _ => return false,
        };
        if corrupt {
            if let Some(x) = a.plain.last_mut() {
                *x ^= 0x20;
            }
        }
        let case = json!({"label": label});
        let mut bad = false;
        if let Some((zp, zused)) = &z {
            ctx.nontrivial(hash64(&d[..(*zused).min(d.len())]));
            if a.plain != *zp {
                bad = true;
                let at = a.plain.iter().zip(zp.iter()).position(|(x, y)| x != y).unwrap_or(a.plain.len().min(zp.len()));
                ctx.violation(
                    "plaintext_differs_from_zlib",
                    &format!("plaintext_differs_from_zlib|{}", crate::rng::digest_hex(d)),
                    &format!(
                        "plain_text ({} bytes) differs from zlib inflate's output ({} bytes) first at offset {} on {}",
                        a.plain.len(),
                        zp.len(),
                        at,
                        label
                    ),
                    case.clone(),
                    d,
                );
            }
            if a.size != *zused {
                bad = true;
                ctx.violation(
                    "consumed_differs_from_zlib",
                    &format!("consumed_differs_from_zlib|{}", crate::rng::digest_hex(d)),
                    &format!("compressed_size {} but zlib consumed {} bytes on {}", a.size, zused, label),
                    case.clone(),
                    d,
                );
            }
            if ctx.want_sample() {
                ctx.sample(json!({"input": hex_prefix(d, 48), "len": d.len(), "how": label,
                    "plain_len": zp.len(), "consumed": zused}));
            }
        }
        if let Some(p) = truth {
            ctx.count("with_producer_ground_truth");
            if a.plain != p {
                bad = true;
                ctx.violation(
                    "plaintext_differs_from_source",
                    &format!("plaintext_differs_from_source|{}", crate::rng::digest_hex(d)),
                    &format!(
                        "plain_text ({} bytes) is not the plaintext the stream was made from ({} bytes) on {}",
                        a.plain.len(),
                        p.len(),
                        label
                    ),
                    case,
                    d,
                );
            }
        }
        bad
    }
}

/// "alphabet sweep": a stream that uses every literal, every length code with several extra-bit
/// values and every distance code with minimal and maximal extra bits, under the fixed code or a
/// random dynamic code — so that a wrong entry in any base/extra table or in the fixed-code ranges,
/// made symmetrically by reader and writer, is visible to the second decoder.
pub fn alphabet_sweep(r: &mut Rng, dynamic: bool) -> (Vec<u8>, Vec<u8>) {
    let mut toks: Vec<Tok> = vec![];
    let mut order: Vec<u8> = (0..=255u8).collect();
    for i in (1..256).rev() {
        let j = r.usize_below(i + 1);
        order.swap(i, j);
    }
    // 32 KiB of literals so that every distance is legal
    for i in 0..32768usize {
        toks.push(Tok::Lit(order[i % 256] ^ (i / 256) as u8));
    }
    let mut pairs = vec![];
    for i in 0..29 {
        let lo = gen::LEN_BASE[i];
        let hi = if i == 28 { 258 } else { lo + (1u16 << gen::LEN_EXTRA[i]) - 1 };
        for l in [lo, hi, lo + r.below((hi - lo + 1) as u64) as u16] {
            let j = r.usize_below(30);
            let dlo = gen::DIST_BASE[j] as u32;
            let dhi = dlo + (1u32 << gen::DIST_EXTRA[j]) - 1;
            pairs.push((l.min(258), r.range(dlo as u64, dhi as u64) as u32));
        }
    }
    for j in 0..30 {
        let dlo = gen::DIST_BASE[j] as u32;
        let dhi = dlo + (1u32 << gen::DIST_EXTRA[j]) - 1;
        for d in [dlo, dhi, r.range(dlo as u64, dhi as u64) as u32] {
            pairs.push((3 + r.below(256) as u16, d));
        }
    }
    for i in (1..pairs.len()).rev() {
        let j = r.usize_below(i + 1);
        pairs.swap(i, j);
    }
    for (l, d) in pairs {
        toks.push(Tok::Ref {
            len: l,
            dist: d.min(32768) as u16,
            irr258: l == 258 && r.chance(1, 3),
        });
        toks.push(Tok::Lit(r.byte()));
    }
    let mut plain = vec![];
    for t in &toks {
        match *t {
            Tok::Lit(b) => plain.push(b),
            Tok::Ref { len, dist, .. } => {
                for _ in 0..len {
                    let b = plain[plain.len() - dist as usize];
                    plain.push(b);
                }
            }
        }
    }
    let mut w = gen::BitW::new();
    w.put(1, 1);
    if dynamic {
        w.put(2, 2);
        let mut cfg = gen::GenCfg::random(r, 0);
        cfg.max_code_len = 15;
        cfg.slack = false;
        let (ll, dl) = gen::dynamic_lengths_for(r, &toks, &cfg);
        gen::write_dynamic_header(r, &mut w, &ll, &dl, false, false);
        let (llc, dlc) = (gen::canon_codes(&ll), gen::canon_codes(&dl));
        gen::write_tokens(&mut w, &toks, &ll, &llc, &dl, &dlc);
    } else {
        w.put(1, 2);
        let (ll, dl) = gen::fixed_lengths();
        let (llc, dlc) = (gen::canon_codes(&ll), gen::canon_codes(&dl));
        gen::write_tokens(&mut w, &toks, &ll, &llc, &dl, &dlc);
    }
    w.pad(0);
    (w.out, plain)
}

/// Two consecutive dynamic blocks whose headers transmit the *same* sequence of code lengths but split it
/// differently between the literal/length and the distance alphabet (HLIT+1, HDIST-1): legal use of the
/// HLIT/HDIST slack. A decoder that confuses the two splits decodes other distances than zlib.
pub fn split_shift_stream(r: &mut Rng) -> (Vec<u8>, Vec<u8>) {
    let (a, b) = (b'a' + r.below(20) as u8, b'A' + r.below(20) as u8);
    let mut ll = vec![0u8; 286];
    ll[a as usize] = 2;
    ll[b as usize] = 2;
    ll[256] = 2;
    ll[257] = 2; // length 3
    let mut w = gen::BitW::new();
    let mut plain = vec![];
    let reps = 1 + r.usize_below(3);
    for i in 0..2 * reps {
        let last = i == 2 * reps - 1;
        let shifted = i % 2 == 1;
        // block "A": hlit 258, distance lengths [0,1,1]; block "B": hlit 259, distance lengths [1,1]
        let (hlit, dl, d0): (usize, Vec<u8>, u16) = if shifted { (259, vec![1, 1], 1) } else { (258, vec![0, 1, 1], 2) };
        let mut dl30 = vec![0u8; 30];
        dl30[..dl.len()].copy_from_slice(&dl);
        let mut toks = vec![Tok::Lit(a), Tok::Lit(b), Tok::Lit(a)];
        for _ in 0..1 + r.usize_below(4) {
            toks.push(Tok::Ref {
                len: 3,
                dist: d0 + r.below(2) as u16,
                irr258: false,
            });
            toks.push(Tok::Lit(if r.chance(1, 2) { a } else { b }));
        }
        w.put(last as u32, 1);
        w.put(2, 2);
        if !gen::write_dynamic_header_exact(r, &mut w, &ll, &dl30, 0, hlit, dl.len(), 0) {
            return (vec![], vec![]);
        }
        let (llc, dlc) = (gen::canon_codes(&ll), gen::canon_codes(&dl30));
        gen::write_tokens(&mut w, &toks, &ll, &llc, &dl30, &dlc);
        for t in &toks {
            match *t {
                Tok::Lit(x) => plain.push(x),
                Tok::Ref { len, dist, .. } => {
                    for _ in 0..len {
                        let x = plain[plain.len() - dist as usize];
                        plain.push(x);
                    }
                }
            }
        }
    }
    w.pad(0);
    (w.out, plain)
}

impl Monitor for C03 {
    fn ncases(&self) -> u64 {
        self.n_sweep + self.n_gen + self.n_comp + self.n_shape + self.n_samples
    }

    fn cpu_budget_s(&self) -> u64 {
        // worst legitimate cost: ~20 CPU-s per analysis of 400 KB of two-symbol noise (chain walks of 4096)
        self.tier.pick(120, 400)
    }

    fn run_case(&mut self, k: u64, ctx: &mut Ctx) {
        let max_plain = self.tier.pick(200_000, 500_000);
        let mut k = k;
        if k < self.n_sweep {
            let mut r = Rng::derive(self.seed, 0x0300, k, 0);
            if k % 5 == 4 {
                for _ in 0..20 {
                    let (d, p) = split_shift_stream(&mut r);
                    ctx.count("source:split_shift");
                    Self::judge(&d, Some(&p), "blocks sharing one code-length sequence with the HLIT/HDIST split moved by one", ctx, false);
                }
                return;
            }
            if k == 7 || k == 17 || k == 27 {
                // scale: plaintext of several MiB up to beyond 128 MiB
                if let Some(st) = streams::scale_stream(&mut r, (k - 7) / 10) {
                    ctx.count("source:scale");
                    ctx.count(&format!("scale:plaintext_{}MiB", st.plain.len() >> 20));
                    Self::judge_cap(&st.bytes, Some(&st.plain), &st.recipe, ctx, false, 256 << 20);
                }
                return;
            }
            let dynamic = k % 2 == 1;
            let (d, p) = alphabet_sweep(&mut r, dynamic);
            ctx.count("source:alphabet_sweep");
            Self::judge(&d, Some(&p), &format!("alphabet sweep ({})", if dynamic { "dynamic" } else { "fixed" }), ctx, false);
            return;
        }
        k -= self.n_sweep;
        if k >= self.n_gen + self.n_comp + self.n_shape {
            let idx = k - self.n_gen - self.n_comp - self.n_shape;
            let mut r = Rng::derive(self.seed, 0x0304, idx, 0);
            let pick = if self.tier == Tier::Quick { r.below(1000) } else { idx };
            match streams::repo_sample(pick) {
                Some((name, b)) => {
                    ctx.count("source:repo sample");
                    Self::judge(&b, None, &format!("repo sample: {}", name), ctx, false);
                    let (how, m) = streams::mutate(&mut r, &b, None);
                    Self::judge(&m, None, &format!("{} <- repo sample: {}", how, name), ctx, false);
                }
                None => ctx.count("repo_samples_missing"),
            }
            return;
        }
        let (label, base, truth, mut r) = if k < self.n_gen {
            let mut r = Rng::derive(self.seed, 0x0301, k, 0);
            match streams::generator_stream(&mut r, max_plain) {
                Some(s) => (format!("generator: {}", s.recipe), s.bytes, s.plain, r),
                None => {
                    ctx.count("generator_rejected");
                    return;
                }
            }
        } else if k < self.n_gen + self.n_comp {
            let mut r = Rng::derive(self.seed, 0x0302, k - self.n_gen, 0);
            let s = streams::compressor_stream(&mut r, max_plain, None);
            (
                format!("{}: {}", streams::SOURCE_NAMES[s.source], s.recipe),
                s.bytes,
                s.plain,
                r,
            )
        } else {
            let idx = k - self.n_gen - self.n_comp;
            let mut r = Rng::derive(self.seed, 0x0303, idx, 0);
            let (name, d, p) = special::shape(idx, &mut r);
            (format!("shape: {}", name), d, p, r)
        };
        ctx.count(&format!("source:{}", label.split(':').next().unwrap_or("?")));
        Self::judge(&base, Some(&truth), &label, ctx, false);
        // with trailing bytes: consumed length must not move
        let mut v = base.clone();
        let n = 1 + r.usize_below(40);
        v.extend(r.bytes(n));
        Self::judge(&v, Some(&truth), &format!("+{} trailing bytes <- {}", n, label), ctx, false);
        for _ in 0..2 {
            let (how, m) = streams::mutate(&mut r, &base, None);
            Self::judge(&m, None, &format!("{} <- {}", how, label), ctx, false);
        }
    }

    fn can_judge_file(&self, _rec: &serde_json::Value) -> bool {
        true
    }

    fn judge_file(&mut self, bytes: &[u8], ctx: &mut Ctx) {
        Self::judge(bytes, None, "file", ctx, false);
    }

    fn selftest(&mut self) -> Result<String, String> {
        let mut r = Rng::new(11);
        for _ in 0..20 {
            let s = streams::compressor_stream(&mut r, 3000, Some(0));
            if s.plain.is_empty() || !cur::analyze(&s.bytes, false).is_ok() {
                continue;
            }
            let mut c = Ctx::scratch("C03");
            return if Self::judge(&s.bytes, Some(&s.plain), "selftest", &mut c, true) {
                Ok("a plaintext with one changed byte was reported as differing from zlib's output".into())
            } else {
                Err("corrupted plaintext was not reported".into())
            };
        }
        Ok("skipped: the library accepted none of 20 zlib streams, nothing to corrupt".into())
    }
}

//! C12 — C ABI wrappers respect caller buffers, report status, and round-trip.
//!
//! Every call of WrapperCompressZip / WrapperDecompressZip runs on buffers between guard pages (see
//! `fence`): an access outside a buffer kills the worker with SIGSEGV, which the driver attributes to
//! the case in flight; a panic crossing the `extern "C"` boundary aborts the process (SIGABRT), seen the
//! same way. In-process oracles: canary slack unchanged; status 0 only with *result_size set to a value
//! <= capacity; decompress output == F; compress output decompresses to F; undersized decompress buffer
//! gives a negative status; no positive status; ample buffers give status 0.

use super::{scaled, Monitor};
use crate::api::{cur, Out};
use crate::ctx::{hex_prefix, Ctx, Tier};
use crate::fence::{Fenced, Place};
use crate::rng::{digest_hex, hash64, Rng};
use crate::{streams, wrap};
use serde_json::json;

const SENTINEL: u64 = 0xDEAD_BEEF_F00D_CAFE;

pub struct C12 {
    tier: Tier,
    seed: u64,
    n: u64,
}

pub struct CallResult {
    pub status: i32,
    pub result_size: u64,
    pub out: Vec<u8>,
    pub damage: Option<isize>,
}

pub fn call(compress: bool, input: &[u8], cap: usize, place: Place) -> CallResult {
    // the input sits against a guard page too: reading past it faults
    let inp = Fenced::with_data(input, Place::GuardAfter);
    let mut out = Fenced::new(cap, place);
    out.fill(0xAB);
    let mut rs: u64 = SENTINEL;
    let status = crate::ctx::quiet(|| unsafe {
        if compress {
            preflate_rs::WrapperCompressZip(inp.ptr(), input.len() as u64, out.ptr(), cap as u64, &mut rs)
        } else {
            preflate_rs::WrapperDecompressZip(inp.ptr(), input.len() as u64, out.ptr(), cap as u64, &mut rs)
        }
    });
    let n = if status == 0 && rs as usize <= cap { rs as usize } else { 0 };
    CallResult {
        status,
        result_size: rs,
        out: out.bytes()[..n].to_vec(),
        damage: out.canary_damage().or(inp.canary_damage()),
    }
}

impl C12 {
    pub fn new(tier: Tier, seed: u64, scale: u64) -> C12 {
        C12 {
            tier,
            seed,
            n: scaled(tier.pick(1_000, 25_000), scale),
        }
    }

    fn check_common(r: &CallResult, cap: usize, what: &str, label: &str, f: &[u8], ctx: &mut Ctx) -> bool {
        let mut bad = false;
        let case = json!({"label": label, "call": what, "capacity": cap});
        if let Some(off) = r.damage {
            bad = true;
            ctx.violation(
                "wrote_outside_buffer",
                &format!("wrote_outside_buffer|{}", what.split(' ').next().unwrap_or("")),
                &format!("{} with capacity {} changed memory at offset {} relative to the buffer on {}", what, cap, off, label),
                case.clone(),
                f,
            );
        }
        if r.status > 0 {
            bad = true;
            ctx.violation(
                "positive_status",
                &format!("positive_status|{}", what.split(' ').next().unwrap_or("")),
                &format!("{} returned positive status {} on {}", what, r.status, label),
                case.clone(),
                f,
            );
        }
        if r.status == 0 && (r.result_size == SENTINEL || r.result_size as usize > cap) {
            bad = true;
            ctx.violation(
                "status0_bad_result_size",
                &format!("status0_bad_result_size|{}", what.split(' ').next().unwrap_or("")),
                &format!(
                    "{} returned 0 with *result_size = {} (capacity {}) on {}",
                    what,
                    if r.result_size == SENTINEL { "untouched".to_string() } else { r.result_size.to_string() },
                    cap,
                    label
                ),
                case,
                f,
            );
        }
        bad
    }

    /// the whole sweep for one file. `poke`: self-test only.
    pub fn judge(f: &[u8], label: &str, r: &mut Rng, ctx: &mut Ctx, dense: bool) -> bool {
        ctx.item_bytes(label, f);
        let mut bad = false;
        ctx.phase("nonverdict: expansion to size the ample buffer (C01's verdict)");
        let exp_len = match cur::expand(f) {
            Out::Ok(e) => e.len(),
            _ => {
                // the current build cannot expand the file (C01's concern). The statement's premise "a file whose
                // expanded form is at most 128 MiB" is about the file, though: if the frozen reference build
                // expands it, the wrappers still owe the round trip, with a buffer sized from that expansion
                match crate::api::ref1::expand(f) {
                    Out::Ok(e) => {
                        ctx.count("expansion_sized_by_the_reference_build");
                        e.len()
                    }
                    _ => 0,
                }
            }
        };
        ctx.phase("verdict: C ABI wrappers");
        // ample = the zstd bound of an expansion somewhat larger than the one just measured (the wrapper
        // expands again itself; equal sizes are C14's verdict, not a premise here)
        let bound = zstd::zstd_safe::compress_bound(exp_len + exp_len / 8 + 4096) + 64;
        // reference frame with an ample buffer
        let place0 = if r.chance(1, 2) { Place::GuardAfter } else { Place::GuardBefore };
        let c0 = call(true, f, bound, place0);
        ctx.count("evaluations");
        bad |= Self::check_common(&c0, bound, "compress (ample buffer)", label, f, ctx);
        if c0.status != 0 {
            if exp_len > 0 {
                bad = true;
                ctx.violation(
                    "ample_buffer_failed",
                    "ample_buffer_failed|compress",
                    &format!(
                        "WrapperCompressZip with capacity {} (compress bound of the {}-byte expansion) returned {} on {}",
                        bound, exp_len, c0.status, label
                    ),
                    json!({"label": label}),
                    f,
                );
            } else {
                ctx.count("compress_negative_on_unexpandable_input");
            }
            return bad;
        }
        let frame = c0.out.clone();
        let needed_c = frame.len();
        // --- compress capacity sweep: status 0 => fits and is valid
        let mut caps: Vec<usize> = (0..=16).collect();
        caps.extend_from_slice(&[needed_c.saturating_sub(1), needed_c, needed_c + 1, 2 * needed_c, bound]);
        if dense {
            let mut c = 17;
            while c < needed_c + 16 {
                caps.push(c);
                c += 7;
            }
        } else {
            for _ in 0..6 {
                caps.push(r.usize_below(needed_c + 32));
            }
        }
        caps.sort();
        caps.dedup();
        for &cap in &caps {
            let place = if r.chance(1, 2) { Place::GuardAfter } else { Place::GuardBefore };
            let c = call(true, f, cap, place);
            ctx.count("evaluations");
            ctx.count("compress_calls");
            ctx.count(if c.status == 0 { "compress:status0" } else { "compress:negative" });
            bad |= Self::check_common(&c, cap, "compress", label, f, ctx);
            if c.status == 0 && c.result_size as usize <= cap {
                // the bytes must be a valid frame of F
                let d = call(false, &c.out, f.len() + 64, Place::GuardAfter);
                if d.status != 0 || d.out[..] != f[..] {
                    bad = true;
                    ctx.violation(
                        "compress_output_invalid",
                        &format!("compress_output_invalid|{}", digest_hex(f)),
                        &format!(
                            "WrapperCompressZip returned 0 with {} bytes at capacity {}, but they do not decompress to the file (status {}) on {}",
                            c.result_size, cap, d.status, label
                        ),
                        json!({"label": label, "capacity": cap}),
                        f,
                    );
                }
            }
            if cap >= bound && c.status != 0 {
                bad = true;
                ctx.violation(
                    "ample_buffer_failed",
                    "ample_buffer_failed|compress",
                    &format!("WrapperCompressZip with capacity {} >= bound {} returned {} on {}", cap, bound, c.status, label),
                    json!({"label": label}),
                    f,
                );
            }
        }
        // --- a caller that reuses one input buffer: after a compress call that failed for want of space, the same
        // buffer (same address, same length) holds another file; the output must belong to that other file
        if f.len() > 8 && needed_c > 4 {
            let mut inp = Fenced::with_data(f, Place::GuardAfter);
            let mut rs: u64 = SENTINEL;
            let mut small = Fenced::new(needed_c / 2, Place::GuardAfter);
            let st1 = crate::ctx::quiet(|| unsafe {
                preflate_rs::WrapperCompressZip(inp.ptr(), f.len() as u64, small.ptr(), (needed_c / 2) as u64, &mut rs)
            });
            small.fill(0);
            // other content, same place: change a few bytes in the last quarter
            let mut g = f.to_vec();
            for _ in 0..1 + r.usize_below(4) {
                let i = g.len() - 1 - r.usize_below(g.len() / 4 + 1);
                g[i] = g[i].wrapping_add(1 + r.below(255) as u8);
            }
            unsafe { std::ptr::copy_nonoverlapping(g.as_ptr(), inp.ptr(), g.len()) };
            let gexp = cur::expand(&g).ok().map(|e| e.len()).unwrap_or(0);
            let cap2 = zstd::zstd_safe::compress_bound(gexp + gexp / 8 + 4096) + 64;
            let mut out2 = Fenced::new(cap2, Place::GuardBefore);
            out2.fill(0xAB);
            let mut rs2: u64 = SENTINEL;
            let st2 = crate::ctx::quiet(|| unsafe {
                preflate_rs::WrapperCompressZip(inp.ptr(), g.len() as u64, out2.ptr(), cap2 as u64, &mut rs2)
            });
            ctx.count("evaluations");
            ctx.count("same_buffer_other_file_probes");
            if st1 < 0 && st2 == 0 && (rs2 as usize) <= cap2 {
                let d = call(false, &out2.bytes()[..rs2 as usize], g.len() + 64, Place::GuardAfter);
                if d.status != 0 || d.out[..] != g[..] {
                    bad = true;
                    ctx.violation(
                        "output_belongs_to_earlier_call",
                        &format!("output_belongs_to_earlier_call|{}", if d.status == 0 && d.out[..] == f[..] { "previous_file" } else { "other" }),
                        &format!(
                            "after an undersized (failed) compress call, a compress call for different content in the same input buffer returned 0 but its output decompresses to {} on {}",
                            if d.status == 0 && d.out[..] == f[..] { "the PREVIOUS file".to_string() } else { format!("status {} / other bytes", d.status) },
                            label
                        ),
                        json!({"label": label}),
                        &g,
                    );
                }
            }
        }
        // --- decompress capacity sweep around |F|
        let needed_d = f.len();
        let mut caps: Vec<usize> = (0..=16).collect();
        caps.extend_from_slice(&[needed_d.saturating_sub(1), needed_d, needed_d + 1, 2 * needed_d + 1]);
        if dense {
            let mut c = 17;
            while c < needed_d + 16 {
                caps.push(c);
                c += 7;
            }
        } else {
            for _ in 0..6 {
                caps.push(r.usize_below(needed_d + 32));
            }
        }
        caps.sort();
        caps.dedup();
        for &cap in &caps {
            let place = if r.chance(1, 2) { Place::GuardAfter } else { Place::GuardBefore };
            let d = call(false, &frame, cap, place);
            ctx.count("evaluations");
            ctx.count("decompress_calls");
            ctx.count(if d.status == 0 { "decompress:status0" } else { "decompress:negative" });
            bad |= Self::check_common(&d, cap, "decompress", label, f, ctx);
            if cap < needed_d {
                if d.status >= 0 {
                    bad = true;
                    ctx.violation(
                        "undersized_decompress_not_negative",
                        "undersized_decompress_not_negative",
                        &format!(
                            "WrapperDecompressZip with capacity {} < file size {} returned {} (result_size {}) on {}",
                            cap, needed_d, d.status, d.result_size, label
                        ),
                        json!({"label": label, "capacity": cap}),
                        f,
                    );
                }
            } else if d.status != 0 {
                bad = true;
                ctx.violation(
                    "ample_buffer_failed",
                    "ample_buffer_failed|decompress",
                    &format!("WrapperDecompressZip with capacity {} >= file size {} returned {} on {}", cap, needed_d, d.status, label),
                    json!({"label": label, "capacity": cap}),
                    f,
                );
            } else if d.out[..] != f[..] {
                bad = true;
                ctx.violation(
                    "decompress_output_differs",
                    &format!("decompress_output_differs|{}", digest_hex(f)),
                    &format!(
                        "WrapperDecompressZip returned 0 with {} bytes that are not the {}-byte file on {}",
                        d.result_size, needed_d, label
                    ),
                    json!({"label": label, "capacity": cap}),
                    f,
                );
            }
        }
        // --- inputs that are not frames: negative status, fences quiet
        let mut nf: Vec<Vec<u8>> = vec![vec![], f.to_vec()];
        if frame.len() > 2 {
            nf.push(frame[..r.usize_below(frame.len() - 1) + 1].to_vec());
            nf.push(frame[..frame.len() - 1].to_vec());
        }
        let n = r.usize_below(100);
        nf.push(r.bytes(n));
        for x in nf {
            if x.len() >= 4 && x[0] == 0x28 && x[1] == 0xB5 && x[2] == 0x2F && x[3] == 0xFD && x.len() == frame.len() {
                continue;
            }
            if x.len() >= 4 && x[1] == 0x2A && x[2] == 0x4D && x[3] == 0x18 {
                continue;
            }
            let d = call(false, &x, f.len() + 64, Place::GuardAfter);
            ctx.count("evaluations");
            ctx.count("non_frame_calls");
            bad |= Self::check_common(&d, f.len() + 64, "decompress (non-frame)", label, f, ctx);
            if d.status >= 0 && !(x[..] == frame[..]) {
                // a truncated frame or noise must not be reported as success
                bad = true;
                ctx.violation(
                    "non_frame_status0",
                    "non_frame_status0",
                    &format!("WrapperDecompressZip returned {} for input that is not a complete zstd frame ({} bytes) on {}", d.status, x.len(), label),
                    json!({"label": label}),
                    &x,
                );
            }
        }
        ctx.nontrivial(hash64(f));
        if ctx.want_sample() {
            ctx.sample(json!({"file": hex_prefix(f, 32), "len": f.len(), "how": label, "frame_len": needed_c, "expanded_len": exp_len}));
        }
        bad
    }
}

impl Monitor for C12 {
    fn ncases(&self) -> u64 {
        self.n
    }

    fn cpu_budget_s(&self) -> u64 {
        300
    }

    fn run_case(&mut self, k: u64, ctx: &mut Ctx) {
        let mut r = Rng::derive(self.seed, 0x1201, k, 0);
        // a valid zstd frame around a tiny garbage container: the wrapper may fail (negative status, also
        // for an internal panic mapped to -2) but must keep its promises, and nothing may leak into the
        // calls that follow in this process (the sweep below would then fail with ample buffers)
        for _ in 0..4 {
            let n = r.usize_below(5);
            let mut c = vec![1u8];
            for _ in 0..n {
                c.push(*r.pick(&[0u8, 1, 2, 3, 0x7f, 0x80, 0xff]));
            }
            if r.chance(1, 8) {
                c[0] = r.byte();
            }
            if let Ok(frame) = zstd::bulk::compress(&c, 3) {
                let place = if r.chance(1, 2) { Place::GuardAfter } else { Place::GuardBefore };
                let d = call(false, &frame, 64, place);
                ctx.count("evaluations");
                ctx.count("garbage_container_calls");
                ctx.count(&format!("garbage_container:status{}", d.status.clamp(-3, 1)));
                Self::check_common(&d, 64, "decompress (frame around a garbage container)", &format!("container {:02x?}", c), &c, ctx);
            }
        }
        if k < 2 {
            // a file without embedded streams whose expanded form is exactly 128 MiB (k = 0) or one byte less:
            // both are inside the premise "at most 128 MiB" and must round-trip
            let exp_target: usize = (128 << 20) - k as usize;
            let n = exp_target - 6; // version byte, tag, 4-byte varint
            let mut f = wrap::junk_clean(&mut r, 1 << 16);
            while f.len() < n {
                let l = (n - f.len()).min(f.len());
                f.extend_from_within(..l);
            }
            ctx.count("files_at_the_128MiB_boundary");
            let c = call(true, &f, 1 << 20, Place::GuardAfter);
            ctx.count("evaluations");
            if c.status == 0 {
                let d = call(false, &c.out, f.len() + 16, Place::GuardAfter);
                ctx.count("evaluations");
                if d.status != 0 || d.out[..] != f[..] {
                    ctx.violation(
                        "boundary_128MiB_roundtrip",
                        "boundary_128MiB_roundtrip",
                        &format!("a file whose expanded form is {} bytes (<= 128 MiB) does not round-trip: decompress status {}", exp_target, d.status),
                        json!({"expanded": exp_target}),
                        &f[..64],
                    );
                }
            } else {
                ctx.violation(
                    "boundary_128MiB_roundtrip",
                    "boundary_128MiB_roundtrip|compress",
                    &format!("compress of a file whose expanded form is {} bytes returned {} with a 1 MiB output buffer", exp_target, c.status),
                    json!({"expanded": exp_target}),
                    &f[..64],
                );
            }
            return;
        }
        let (bytes, label, dense) = match if k % 50 == 7 { 99 } else { k % 10 } {
            99 => {
                // expanded form of several MiB that zstd shrinks by a factor of thousands
                let n = (1 << 20) + r.usize_below(5 << 20);
                let b = if r.chance(1, 2) { 0u8 } else { r.byte() };
                let p = vec![b; n];
                if r.chance(1, 2) {
                    (p, format!("{} equal bytes, no embedded stream", n), false)
                } else {
                    let d = crate::comp::zlib_raw(&p, 6, 0, 15, 8, &[]).unwrap();
                    let mut f = wrap::junk_clean(&mut r, 10);
                    f.extend(wrap::zlib_wrap(&d, &p, 0x9C));
                    (f, format!("zlib member of {} equal bytes", n), false)
                }
            }
            0 => {
                let g = wrap::edge_case(k / 10, &mut r);
                (g.bytes, g.recipe, true)
            }
            1 => {
                let n = r.usize_below(400);
                (r.bytes(n), "arbitrary non-container bytes".to_string(), true)
            }
            2 => (vec![], "empty input".to_string(), true),
            3 => {
                // one of the pathological-but-valid stream shapes, walked systematically, behind a wrapper
                let idx = k / 10;
                let (name, d, p) = crate::special::shape(idx, &mut r);
                match crate::comp::zlib_inflate_raw(&d, p.len() + 1024) {
                    Some((pp, used)) if pp == p && used == d.len() => {
                        let s = streams::Stream {
                            source: 4,
                            recipe: format!("shape: {}", name),
                            bytes: d,
                            plain: p,
                        };
                        let w = r.below(4) as u8;
                        let (wb, _, _, variant) = wrap::wrap_stream(&mut r, &s, w, false);
                        let mut f = wrap::junk_clean(&mut r, 8);
                        f.extend(wb);
                        f.extend(wrap::junk_clean(&mut r, 8));
                        ctx.count("files_around_a_pathological_shape");
                        (f, format!("[{} <- shape: {}]", variant, name), false)
                    }
                    _ => {
                        let g = wrap::assemble(&mut r, 1500, 2);
                        (g.bytes, g.recipe, true)
                    }
                }
            }
            4 => {
                let g = wrap::assemble(&mut r, 1500, 2);
                (g.bytes, g.recipe, true)
            }
            _ => {
                let g = wrap::assemble(&mut r, self.tier.pick(20_000, 120_000), 3);
                let (b, l) = if r.chance(1, 4) {
                    let (how, m) = streams::mutate(&mut r, &g.bytes, None);
                    (m, format!("{} <- {}", how, g.recipe))
                } else {
                    (g.bytes, g.recipe)
                };
                (b, l, false)
            }
        };
        let dense = dense && bytes.len() <= 6000;
        ctx.count(if dense { "files_dense_sweep" } else { "files_boundary_sweep" });
        Self::judge(&bytes, &label, &mut r, ctx, dense);
    }

    fn can_judge_file(&self, _rec: &serde_json::Value) -> bool {
        true
    }

    fn judge_file(&mut self, bytes: &[u8], ctx: &mut Ctx) {
        let mut r = Rng::new(self.seed);
        Self::judge(bytes, "file", &mut r, ctx, bytes.len() <= 6000);
    }

    fn selftest(&mut self) -> Result<String, String> {
        // (1) canary: a write into the slack must be noticed
        let mut f = Fenced::new(10, Place::GuardAfter);
        unsafe { f.poke(-1, 0) };
        if f.canary_damage() != Some(-1) {
            return Err("canary damage one byte in front of the buffer was not noticed".into());
        }
        // (2) guard page: a write one byte past the buffer must fault (in a child process)
        unsafe {
            let pid = libc::fork();
            if pid == 0 {
                libc::signal(libc::SIGSEGV, libc::SIG_DFL);
                let mut g = Fenced::new(10, Place::GuardAfter);
                g.poke(10, 1);
                libc::_exit(0);
            }
            let mut st: libc::c_int = 0;
            libc::waitpid(pid, &mut st, 0);
            if !(libc::WIFSIGNALED(st) && libc::WTERMSIG(st) == libc::SIGSEGV) {
                return Err(format!("a write one byte past a fenced buffer did not fault (wait status {})", st));
            }
        }
        Ok("canary damage noticed; a write one byte past a fenced buffer faulted with SIGSEGV in a child process".into())
    }
}
